(* Proofs about Tree/Model.v (C05). *)
From Coq Require Import List NArith Bool Lia.
From RV Require Import Tree.Model.
Import ListNotations.
Local Open Scope N_scope.

(* ---------------------------------------------------------------------------------- *)
(* basics *)

Lemma upd_same : forall s a x, upd s a x a = x.
Proof. intros; unfold upd; now rewrite N.eqb_refl. Qed.

Lemma upd_other : forall s a x b, b <> a -> upd s a x b = s b.
Proof. intros s a x b H; unfold upd. apply N.eqb_neq in H. now rewrite H. Qed.

Lemma mem_In : forall a l, mem a l = true <-> In a l.
Proof.
  intros a l; unfold mem; rewrite existsb_exists; split.
  - intros [x [Hin Heq]]. apply N.eqb_eq in Heq. now subst.
  - intros H; exists a; split; auto. apply N.eqb_refl.
Qed.

Lemma mem_false : forall a l, mem a l = false <-> ~ In a l.
Proof.
  intros a l; rewrite <- mem_In. destruct (mem a l); split; intros H; try congruence.
Qed.

Lemma In_add : forall x c l, In x (add c l) <-> x = c \/ In x l.
Proof.
  intros x c l; unfold add. destruct (mem c l) eqn:E.
  - apply mem_In in E. split; auto. intros [->|]; auto.
  - simpl. split; intros [H|H]; auto.
Qed.

Lemma In_remove : forall x c l, In x (remove c l) <-> In x l /\ x <> c.
Proof.
  intros x c l; unfold remove. rewrite filter_In. rewrite negb_true_iff, N.eqb_neq. tauto.
Qed.

Lemma oeq_true : forall x p, oeq x p = true <-> x = Some p.
Proof.
  intros [q|] p; simpl.
  - rewrite N.eqb_eq. split; congruence.
  - split; congruence.
Qed.

Lemma oeq_false : forall x p, oeq x p = false <-> x <> Some p.
Proof.
  intros x p. rewrite <- oeq_true. destruct (oeq x p); split; congruence.
Qed.

Lemma rank_smax : forall a b, rank (smax a b) = N.max (rank a) (rank b).
Proof.
  intros a b; unfold smax. destruct (rank a <? rank b) eqn:E.
  - apply N.ltb_lt in E. lia.
  - apply N.ltb_ge in E. lia.
Qed.

Lemma rank_inj : forall a b, rank a = rank b -> a = b.
Proof. intros [] []; simpl; intros; try reflexivity; discriminate. Qed.

Lemma rank_le6 : forall a, rank a <= 6.
Proof. intros []; simpl; lia. Qed.

(* ---------------------------------------------------------------------------------- *)
(* the primitive operations, field by field *)

Definition same_but_tree (x y : actor) : Prop :=
  created y = created x /\ st y = st x /\ sg y = sg x /\ apc y = apc x /\ doomed y = doomed x.

(* ---- kill *)
Lemma kill_fields : forall s a b,
  created (do_kill s a b) = created (s b) /\ st (do_kill s a b) = st (s b)
  /\ children (do_kill s a b) = children (s b) /\ supervisor (do_kill s a b) = supervisor (s b)
  /\ apc (do_kill s a b) = apc (s b) /\ doomed (do_kill s a b) = doomed (s b)
  /\ (sg (do_kill s a b) = sg (s b) \/ (b = a /\ sg (s b) = SigNone /\ sg (do_kill s a b) = SigPending)).
Proof.
  intros s a b; unfold do_kill. destruct (sg (s a)) eqn:E; auto 10.
  unfold upd; destruct (N.eqb_spec b a) as [->|]; simpl; auto 10.
Qed.

Lemma kill_sg_self : forall s a, sg (do_kill s a a) <> SigNone.
Proof.
  intros s a; unfold do_kill. destruct (sg (s a)) eqn:E; try congruence.
  rewrite upd_same; simpl; congruence.
Qed.

(* ---- unlink *)
Lemma unlink_noop : forall s c p, supervisor (s c) <> Some p -> do_unlink s c p = s.
Proof. intros s c p H; unfold do_unlink. apply oeq_false in H. now rewrite H. Qed.

Lemma unlink_fields : forall s c p b, supervisor (s c) = Some p ->
  same_but_tree (s b) (do_unlink s c p b)
  /\ children (do_unlink s c p b) = (if b =? p then option_map (remove c) (children (s p)) else children (s b))
  /\ supervisor (do_unlink s c p b) = (if b =? c then None else supervisor (s b)).
Proof.
  intros s c p b H; unfold do_unlink, same_but_tree. apply oeq_true in H. rewrite H.
  unfold upd. destruct (N.eqb_spec b c) as [Hbc|Hbc]; destruct (N.eqb_spec b p) as [Hbp|Hbp]; subst; simpl;
    repeat match goal with |- context [?a =? ?b] => destruct (N.eqb_spec a b); try congruence end;
    simpl; auto 10.
Qed.

(* ---- link *)
Lemma link_false : forall s c p s', do_link s c p = (s', false) -> s' = s.
Proof.
  intros s c p s'; unfold do_link.
  destruct (negb _); [congruence|].
  destruct (_ || _); [congruence|].
  destruct (children (s p)); [|congruence].
  match goal with |- context [supervisor ?x] => destruct (supervisor x) end;
    [match goal with |- context [?a =? ?b] => destruct (a =? b) end|]; congruence.
Qed.

Definition old_sup_other (s : state) (c p : aid) : option aid :=
  match supervisor (s c) with Some q => if q =? p then None else Some q | None => None end.

Lemma link_true : forall s c p s', do_link s c p = (s', true) ->
  created (s c) = true /\ created (s p) = true /\ rank (st (s c)) < 4 /\ rank (st (s p)) < 4
  /\ exists l, children (s p) = Some l
  /\ forall b, same_but_tree (s b) (s' b)
     /\ children (s' b) =
          (if b =? p then Some (add c l)
           else if oeq (old_sup_other s c p) b then option_map (remove c) (children (s b))
           else children (s b))
     /\ supervisor (s' b) = (if b =? c then Some p else supervisor (s b)).
Proof.
  intros s c p s'; unfold do_link.
  destruct (created (s c)) eqn:Ec; simpl; [|congruence].
  destruct (created (s p)) eqn:Ep; simpl; [|congruence].
  unfold draining_or_later.
  destruct (4 <=? rank (st (s c))) eqn:E1; simpl; [congruence|].
  destruct (4 <=? rank (st (s p))) eqn:E2; simpl; [congruence|].
  apply N.leb_gt in E1, E2.
  destruct (children (s p)) as [l|] eqn:El; [|congruence].
  assert (Hs1 : supervisor (upd s p (set_children (Some (add c l)) (s p)) c) = supervisor (s c)).
  { unfold upd. destruct (c =? p) eqn:E; auto. apply N.eqb_eq in E; subst; reflexivity. }
  rewrite Hs1. unfold old_sup_other.
  destruct (supervisor (s c)) as [q|] eqn:Eq.
  - destruct (N.eqb_spec q p) as [->|Hqp]; intros H; inversion H; subst s'; clear H;
      repeat split; auto; exists l; split; auto; intros b; unfold same_but_tree, upd; simpl.
    + destruct (N.eqb_spec b p) as [Hbp|Hbp]; destruct (N.eqb_spec b c) as [Hbc|Hbc]; subst; simpl;
        repeat match goal with |- context [?a =? ?b] => destruct (N.eqb_spec a b); try congruence end;
        simpl; try rewrite Eq; auto 10.
    + destruct (N.eqb_spec b q) as [Hbq|Hbq]; destruct (N.eqb_spec b c) as [Hbc|Hbc];
        destruct (N.eqb_spec b p) as [Hbp|Hbp]; subst; simpl; try congruence;
        repeat match goal with |- context [?a =? ?b] => destruct (N.eqb_spec a b); try congruence end;
        simpl; auto 10.
  - intros H; inversion H; subst s'; clear H.
    repeat split; auto; exists l; split; auto; intros b; unfold same_but_tree, upd; simpl.
    destruct (N.eqb_spec b c) as [Hbc|Hbc]; destruct (N.eqb_spec b p) as [Hbp|Hbp]; subst; simpl; try congruence;
      repeat match goal with |- context [?a =? ?b] => destruct (N.eqb_spec a b); try congruence end;
      simpl; auto 10.
Qed.

(* ---- take *)
Lemma take_none : forall s t p, children (s p) = None -> do_take s t p = (s, []).
Proof. intros s t p H; unfold do_take; now rewrite H. Qed.

Lemma take_some : forall s t p l, children (s p) = Some l ->
  do_take s t p = (detach t p l (upd s p (set_children None (s p))), l).
Proof. intros s t p l H; unfold do_take; now rewrite H. Qed.

Lemma take_fields : forall s t p l b, children (s p) = Some l ->
  let s' := fst (do_take s t p) in
  created (s' b) = created (s b) /\ st (s' b) = st (s b) /\ sg (s' b) = sg (s b) /\ apc (s' b) = apc (s b)
  /\ children (s' b) = (if b =? p then None else children (s b))
  /\ supervisor (s' b) = (if mem b l && oeq (supervisor (s b)) p then None else supervisor (s b))
  /\ doomed (s' b) = (if mem b l then Some t else doomed (s b)).
Proof.
  intros s t p l b H. rewrite (take_some _ _ _ _ H). simpl. unfold detach.
  assert (Hsup : supervisor (upd s p (set_children None (s p)) b) = supervisor (s b)).
  { unfold upd; destruct (N.eqb_spec b p) as [->|]; auto. }
  rewrite Hsup.
  destruct (mem b l) eqn:Em; simpl.
  - destruct (oeq (supervisor (s b)) p) eqn:Eo; unfold upd; destruct (N.eqb_spec b p) as [->|]; simpl; auto 10.
  - unfold upd; destruct (N.eqb_spec b p) as [->|]; simpl; auto 10.
Qed.

(* ---------------------------------------------------------------------------------- *)
(* invariants *)

Definition child_of (s : state) (c p : aid) : Prop :=
  exists l, children (s p) = Some l /\ In c l.

(* T1 *)
Definition two_sided (s : state) : Prop :=
  forall c p, supervisor (s c) = Some p <-> child_of s c p.

Definition work_of (p : pc) : list titem :=
  match p with PSigTerm w | PCleanTerm w => w | _ => [] end.

Definition work (s : state) (t : aid) : list titem := work_of (apc (s t)).

(* killed (signal sent or already received) or already stopping/stopped *)
Definition kos (x : actor) : Prop := sg x <> SigNone \/ 5 <= rank (st x).

(* what the control point of an actor's own task implies about its fields *)
Definition pc_ok (a : aid) (x : actor) : Prop :=
  match apc x with
  | PLive => rank (st x) <= 4 /\ sg x <> SigConsumed
  | PSigTerm _ => rank (st x) <= 5 /\ created x = true
  | PPostStop => rank (st x) = 5 /\ sg x <> SigConsumed /\ created x = true
  | PClean0 => rank (st x) <= 5 /\ created x = true
  | PCleanTerm w => rank (st x) = 5 /\ created x = true /\ (children x = None \/ In (TTake a) w)
  | PNotify | PReadSup => rank (st x) = 5 /\ created x = true /\ children x = None
  | PUnlink q => rank (st x) = 5 /\ created x = true /\ children x = None
                 /\ (supervisor x = None \/ supervisor x = q)
  | PPubStopped => rank (st x) = 5 /\ created x = true /\ children x = None /\ supervisor x = None
  | PDone => st x = Stopped /\ created x = true /\ children x = None /\ supervisor x = None
  end.

Definition links_created (s : state) : Prop :=
  forall c p, supervisor (s c) = Some p -> created (s c) = true /\ created (s p) = true.

Definition doomed_ok (s : state) : Prop :=
  forall c t, doomed (s c) = Some t ->
    created (s c) = true /\ (kos (s c) \/ In (TKill c) (work s t)).

Record InvA (s : state) : Prop := {
  ia_two : two_sided s;
  ia_pc : forall a, pc_ok a (s a);
  ia_cr : links_created s
}.

(* how a step may change the fields of an actor other than through that actor's own task *)
Definition frame_rel (x y : actor) : Prop :=
  apc y = apc x /\ st y = st x /\ (created x = true -> created y = true)
  /\ (sg y = sg x \/ (sg x = SigNone /\ sg y = SigPending))
  /\ (children x = None -> children y = None)
  /\ (supervisor y = supervisor x \/ supervisor y = None \/ rank (st x) < 4).

Lemma frame_refl : forall x, frame_rel x x.
Proof. intros x; unfold frame_rel; auto 10. Qed.

Lemma frame_pc_ok : forall a x y, pc_ok a x -> frame_rel x y -> pc_ok a y.
Proof.
  intros a x y H (Hpc & Hst & Hcr & Hsg & Hch & Hsup).
  unfold pc_ok in *. rewrite Hpc, Hst.
  destruct (apc x); intuition (try congruence; try lia);
    try (right; congruence);
    try (match goal with H : st x = Stopped |- _ => rewrite H in *; simpl in *; lia end).
Qed.

Lemma frame_kos : forall x y, kos x -> frame_rel x y -> kos y.
Proof.
  intros x y [H|H] (Hpc & Hst & Hcr & Hsg & Hch & Hsup); unfold kos.
  - left. destruct Hsg as [E|[E1 E2]]; congruence.
  - right. now rewrite Hst.
Qed.

Lemma two_sided_tree_eq : forall s s',
  two_sided s ->
  (forall b, children (s' b) = children (s b) /\ supervisor (s' b) = supervisor (s b)) ->
  two_sided s'.
Proof.
  intros s s' H E c p. unfold child_of. destruct (E c) as [_ ->]. destruct (E p) as [-> _]. apply H.
Qed.

(* ---- the three tree operations keep T1 *)
Lemma two_sided_unlink : forall s c p, two_sided s -> two_sided (do_unlink s c p).
Proof.
  intros s c p H.
  destruct (oeq (supervisor (s c)) p) eqn:E.
  2:{ apply oeq_false in E. now rewrite unlink_noop. }
  apply oeq_true in E.
  intros b r. unfold child_of.
  destruct (unlink_fields s c p b E) as (_ & _ & ->).
  destruct (unlink_fields s c p r E) as (_ & -> & _).
  destruct (N.eqb_spec b c) as [->|Hbc].
  - split; [discriminate|]. intros (l & Hl & Hin).
    destruct (N.eqb_spec r p) as [->|Hrp].
    + destruct (children (s p)); simpl in Hl; inversion Hl; subst. apply In_remove in Hin. tauto.
    + assert (supervisor (s c) = Some r) by (apply H; exists l; auto). congruence.
  - rewrite (H b r). unfold child_of.
    destruct (N.eqb_spec r p) as [->|Hrp]; [|tauto].
    split.
    + intros (l & Hl & Hin). rewrite Hl. exists (remove c l). split; auto. apply In_remove; auto.
    + intros (l & Hl & Hin). destruct (children (s p)) as [l0|]; simpl in Hl; inversion Hl; subst.
      exists l0; split; auto. apply In_remove in Hin; tauto.
Qed.

Lemma two_sided_link : forall s c p, two_sided s -> two_sided (fst (do_link s c p)).
Proof.
  intros s c p H. destruct (do_link s c p) as [s' ok] eqn:E. simpl.
  destruct ok; [|now rewrite (link_false _ _ _ _ E)].
  destruct (link_true _ _ _ _ E) as (_ & _ & _ & _ & l & Hl & F).
  intros b r. unfold child_of.
  destruct (F b) as (_ & _ & ->). destruct (F r) as (_ & -> & _).
  unfold old_sup_other.
  destruct (N.eqb_spec r p) as [->|Hrp].
  - (* the new supervisor's set *)
    destruct (N.eqb_spec b c) as [->|Hbc].
    + split; auto. intros _. exists (add c l); split; auto. apply In_add; auto.
    + rewrite (H b p). unfold child_of. rewrite Hl. split.
      * intros (l0 & E0 & Hin). inversion E0; subst. exists (add c l0); split; auto. apply In_add; auto.
      * intros (l0 & E0 & Hin). inversion E0; subst. exists l; split; auto. apply In_add in Hin. tauto.
  - destruct (supervisor (s c)) as [q|] eqn:Eq.
    + destruct (N.eqb_spec q p) as [->|Hqp]; simpl.
      * (* already linked to p *)
        destruct (N.eqb_spec b c) as [->|Hbc]; [|apply H].
        split; [congruence|]. intros Hc. assert (supervisor (s c) = Some r) by (apply H; exact Hc). congruence.
      * destruct (N.eqb_spec q r) as [->|Hqr].
        -- (* the previous supervisor's set *)
           destruct (N.eqb_spec b c) as [->|Hbc].
           ++ split; [congruence|]. intros (l0 & E0 & Hin).
              destruct (children (s r)); simpl in E0; inversion E0; subst. apply In_remove in Hin; tauto.
           ++ rewrite (H b r). unfold child_of. split.
              ** intros (l0 & E0 & Hin). rewrite E0. exists (remove c l0); split; auto. apply In_remove; auto.
              ** intros (l0 & E0 & Hin). destruct (children (s r)) as [l1|]; simpl in E0; inversion E0; subst.
                 exists l1; split; auto. apply In_remove in Hin; tauto.
        -- destruct (N.eqb_spec b c) as [->|Hbc]; [|apply H].
           split; [congruence|]. intros Hc. assert (supervisor (s c) = Some r) by (apply H; exact Hc). congruence.
    + simpl. destruct (N.eqb_spec b c) as [->|Hbc]; [|apply H].
      split; [congruence|]. intros Hc. assert (supervisor (s c) = Some r) by (apply H; exact Hc). congruence.
Qed.

Lemma two_sided_take : forall s t p, two_sided s -> two_sided (fst (do_take s t p)).
Proof.
  intros s t p H. destruct (children (s p)) as [l|] eqn:El.
  2:{ now rewrite take_none. }
  intros b r. unfold child_of.
  destruct (take_fields s t p l b El) as (_ & _ & _ & _ & _ & -> & _).
  destruct (take_fields s t p l r El) as (_ & _ & _ & _ & -> & _ & _).
  destruct (N.eqb_spec r p) as [->|Hrp].
  - split; [|intros (l0 & E0 & _); discriminate].
    destruct (mem b l && oeq (supervisor (s b)) p) eqn:E; [discriminate|].
    intros Hs. assert (Hc : child_of s b p) by (apply H; exact Hs).
    destruct Hc as (l0 & E0 & Hin). rewrite El in E0; inversion E0; subst.
    apply mem_In in Hin. apply oeq_true in Hs. rewrite Hin, Hs in E. discriminate.
  - destruct (mem b l && oeq (supervisor (s b)) p) eqn:E; [|apply H].
    apply andb_true_iff in E. destruct E as [_ E]. apply oeq_true in E.
    split; [discriminate|]. intros Hc. assert (supervisor (s b) = Some r) by (apply H; exact Hc). congruence.
Qed.

(* ---- frames of the global operations *)
Lemma kill_frame : forall s a b, frame_rel (s b) (do_kill s a b).
Proof.
  intros s a b. destruct (kill_fields s a b) as (E1 & E2 & E3 & E4 & E5 & E6 & E7).
  unfold frame_rel. rewrite E1, E2, E3, E4, E5. intuition.
Qed.

Lemma unlink_frame : forall s c p b, frame_rel (s b) (do_unlink s c p b).
Proof.
  intros s c p b. destruct (oeq (supervisor (s c)) p) eqn:E.
  2:{ apply oeq_false in E. rewrite unlink_noop; auto. apply frame_refl. }
  apply oeq_true in E. destruct (unlink_fields s c p b E) as ((E1 & E2 & E3 & E4 & E5) & Hc & Hs).
  unfold frame_rel. rewrite E1, E2, E3, E4, Hc, Hs. repeat split; auto.
  - destruct (N.eqb_spec b p) as [->|]; auto. intros ->; reflexivity.
  - destruct (b =? c); auto.
Qed.

Lemma link_frame : forall s c p b, frame_rel (s b) (fst (do_link s c p) b).
Proof.
  intros s c p b. destruct (do_link s c p) as [s' ok] eqn:E. simpl.
  destruct ok; [|rewrite (link_false _ _ _ _ E); apply frame_refl].
  destruct (link_true _ _ _ _ E) as (_ & _ & Hc & _ & l & Hl & F).
  destruct (F b) as ((E1 & E2 & E3 & E4 & E5) & Hch & Hs).
  unfold frame_rel. rewrite E1, E2, E3, E4, Hch, Hs. repeat split; auto.
  - destruct (N.eqb_spec b p) as [->|]; [congruence|].
    destruct (oeq _ b); auto. intros ->; reflexivity.
  - destruct (N.eqb_spec b c) as [->|]; auto.
Qed.

Lemma take_frame : forall s t p b, frame_rel (s b) (fst (do_take s t p) b).
Proof.
  intros s t p b. destruct (children (s p)) as [l|] eqn:El.
  2:{ rewrite take_none; auto. apply frame_refl. }
  destruct (take_fields s t p l b El) as (E1 & E2 & E3 & E4 & E5 & E6 & E7).
  unfold frame_rel. rewrite E1, E2, E3, E4, E5, E6. repeat split; auto.
  - destruct (b =? p); auto.
  - destruct (_ && _); auto.
Qed.

(* ---- two generic ways a step changes the state ---- *)
Lemma invA_local : forall s a y,
  InvA s ->
  children y = children (s a) -> supervisor y = supervisor (s a) ->
  (created (s a) = true -> created y = true) ->
  pc_ok a y ->
  InvA (upd s a y).
Proof.
  intros s a y [H1 H2 H3] Hc Hs Hcr Hp. split.
  - apply (two_sided_tree_eq s); auto. intros b. unfold upd.
    destruct (N.eqb_spec b a) as [->|]; auto.
  - intros b. unfold upd. destruct (N.eqb_spec b a) as [->|]; auto.
  - intros c p. unfold upd.
    destruct (N.eqb_spec c a) as [->|Hca]; destruct (N.eqb_spec p a) as [->|Hpa]; intros E.
    + rewrite Hs in E. destruct (H3 _ _ E); auto.
    + rewrite Hs in E. destruct (H3 _ _ E); auto.
    + destruct (H3 _ _ E); auto.
    + destruct (H3 _ _ E); auto.
Qed.

Lemma invA_global : forall s s',
  InvA s -> two_sided s' -> (forall b, frame_rel (s b) (s' b)) ->
  (forall c p, supervisor (s' c) = Some p ->
     supervisor (s c) = Some p \/ (created (s c) = true /\ created (s p) = true)) ->
  InvA s'.
Proof.
  intros s s' [H1 H2 H3] T F L. split; auto.
  - intros a. eapply frame_pc_ok; eauto.
  - intros c p E. destruct (F c) as (_ & _ & Fc & _). destruct (F p) as (_ & _ & Fp & _).
    destruct (L _ _ E) as [E1|[E1 E2]]; auto.
    destruct (H3 _ _ E1); auto.
Qed.

Lemma invA_kill : forall s x, InvA s -> InvA (do_kill s x).
Proof.
  intros s x H. apply (invA_global s); auto.
  - apply (two_sided_tree_eq s); [apply H|]. intros b.
    destruct (kill_fields s x b) as (_ & _ & E3 & E4 & _); auto.
  - intros b; apply kill_frame.
  - intros c p E. destruct (kill_fields s x c) as (_ & _ & _ & E4 & _). left; congruence.
Qed.

Lemma invA_unlink : forall s c p, InvA s -> InvA (do_unlink s c p).
Proof.
  intros s c p H. apply (invA_global s); auto.
  - apply two_sided_unlink, H.
  - intros b; apply unlink_frame.
  - intros b r E. destruct (oeq (supervisor (s c)) p) eqn:Eo.
    + apply oeq_true in Eo. destruct (unlink_fields s c p b Eo) as (_ & _ & Hs).
      rewrite Hs in E. destruct (b =? c); [discriminate|auto].
    + apply oeq_false in Eo. rewrite unlink_noop in E; auto.
Qed.

Lemma invA_link : forall s c p, InvA s -> InvA (fst (do_link s c p)).
Proof.
  intros s c p H. apply (invA_global s); auto.
  - apply two_sided_link, H.
  - intros b; apply link_frame.
  - intros b r E. destruct (do_link s c p) as [s' ok] eqn:El. simpl in E.
    destruct ok; [|rewrite (link_false _ _ _ _ El) in E; auto].
    destruct (link_true _ _ _ _ El) as (C1 & C2 & _ & _ & l & Hl & F).
    destruct (F b) as (_ & _ & Hs). rewrite Hs in E.
    destruct (N.eqb_spec b c) as [->|]; auto. inversion E; subst. auto.
Qed.

Lemma invA_take : forall s t p, InvA s -> InvA (fst (do_take s t p)).
Proof.
  intros s t p H. apply (invA_global s); auto.
  - apply two_sided_take, H.
  - intros b; apply take_frame.
  - intros b r E. destruct (children (s p)) as [l|] eqn:El.
    + destruct (take_fields s t p l b El) as (_ & _ & _ & _ & _ & Hs & _).
      rewrite Hs in E. destruct (_ && _); [discriminate|auto].
    + rewrite take_none in E; auto.
Qed.

Section RuleA.
  Variable kill_rule : status -> bool.
  Let stepR := step kill_rule.

  Lemma term_step_invA : forall s t w, InvA s -> InvA (fst (term_step kill_rule s t w)).
  Proof.
    intros s t w H. destruct w as [|[x|x] w]; simpl; auto.
    - destruct (kill_rule _); auto. now apply invA_kill.
    - destruct (do_take s t x) as [s1 l] eqn:E. simpl.
      change s1 with (fst (s1, l)). rewrite <- E. now apply invA_take.
  Qed.

  Lemma term_step_frame : forall s t w b, frame_rel (s b) (fst (term_step kill_rule s t w) b).
  Proof.
    intros s t w b. destruct w as [|[x|x] w]; simpl; try apply frame_refl.
    - destruct (kill_rule _); [apply kill_frame|apply frame_refl].
    - destruct (do_take s t x) as [s1 l] eqn:E. simpl.
      change s1 with (fst (s1, l)). rewrite <- E. apply take_frame.
  Qed.

  (* after a TTake x item executed, x's child set is closed *)
  Lemma term_step_take_closed : forall s t x w,
    children (fst (term_step kill_rule s t (TTake x :: w)) x) = None.
  Proof.
    intros s t x w. simpl. destruct (do_take s t x) as [s1 l] eqn:E. simpl.
    destruct (children (s x)) as [l0|] eqn:El.
    - pose proof (take_fields s t x l0 x El) as F. rewrite E in F. simpl in F.
      destruct F as (_ & _ & _ & _ & F & _). now rewrite N.eqb_refl in F.
    - rewrite take_none in E; auto. inversion E; subst; auto.
  Qed.

  Lemma term_step_work_TTake : forall s t w a,
    In (TTake a) w ->
    In (TTake a) (snd (term_step kill_rule s t w)) \/ (exists w', w = TTake a :: w').
  Proof.
    intros s t w a Hin. destruct w as [|[x|x] w]; simpl in *; auto.
    - destruct Hin as [E|Hin]; [discriminate|auto].
    - destruct (do_take s t x) as [s1 l]. simpl.
      destruct Hin as [E|Hin].
      + inversion E; subst. right; eauto.
      + left. apply in_or_app; auto.
  Qed.

  Ltac pcs H a E :=
    let Hp := fresh "Hp" in
    pose proof (ia_pc _ H a) as Hp; unfold pc_ok in Hp; rewrite E in Hp.

  Theorem invA_step : forall l s, InvA s -> InvA (step kill_rule l s).
  Proof.
    intros l s H. destruct l as [a|c p|c p|a|a|a|a|a|a|a|a|a|a]; simpl.
    - (* LCreate *)
      apply invA_local; auto. pose proof (ia_pc _ H a) as Hp.
      eapply frame_pc_ok; eauto. unfold frame_rel; simpl; auto 10.
    - now apply invA_link.
    - now apply invA_unlink.
    - now apply invA_kill.
    - (* LDrain *)
      destruct (rank (st (s a)) <? 5) eqn:E; auto. apply N.ltb_lt in E.
      apply invA_local; auto. pose proof (ia_pc _ H a) as Hp. unfold pc_ok in *; simpl.
      destruct (apc (s a)); simpl; intuition (try lia; try congruence).
      rewrite H0 in E; simpl in E; lia.
    - (* LStart *)
      destruct (created (s a)) eqn:Ec; auto. destruct (st (s a)) eqn:Es; auto.
      destruct (apc (s a)) eqn:Ep; auto.
      apply invA_local; auto. pcs H a Ep. unfold pc_ok; simpl. rewrite Ep. simpl. intuition lia.
    - (* LRun *)
      destruct (created (s a)) eqn:Ec; auto. destruct (apc (s a)) eqn:Ep; auto.
      destruct (1 <=? rank (st (s a))) eqn:E1; auto.
      apply invA_local; auto. pcs H a Ep. unfold pc_ok; simpl. rewrite Ep. simpl.
      rewrite rank_smax. simpl. intuition lia.
    - (* LSignal *)
      destruct (created (s a)) eqn:Ec; auto. destruct (sg (s a)) eqn:Es; auto.
      destruct (1 <=? rank (st (s a))) eqn:E1; auto.
      destruct (apc (s a)) eqn:Ep; auto.
      + apply invA_local; auto. pcs H a Ep. unfold pc_ok; simpl. intuition lia.
      + apply invA_local; auto. pcs H a Ep. unfold pc_ok; simpl. intuition lia.
    - (* LTerm *)
      destruct (apc (s a)) eqn:Ep; auto.
      + (* PSigTerm *)
        destruct w as [|i w].
        * apply invA_local; auto. pcs H a Ep. unfold pc_ok; simpl. intuition.
        * destruct (term_step kill_rule s a (i :: w)) as [s1 w1] eqn:Et.
          pose proof (term_step_invA s a (i :: w) H) as H1. rewrite Et in H1; simpl in H1.
          pose proof (term_step_frame s a (i :: w) a) as F. rewrite Et in F; simpl in F.
          apply invA_local; auto.
          pose proof (ia_pc _ H1 a) as Hp. destruct F as (F1 & F2 & _).
          unfold pc_ok in *; simpl. rewrite F1, Ep in Hp. auto.
      + (* PCleanTerm *)
        destruct w as [|i w].
        * apply invA_local; auto. pcs H a Ep. unfold pc_ok; simpl. intuition.
          simpl in *; tauto.
        * destruct (term_step kill_rule s a (i :: w)) as [s1 w1] eqn:Et.
          pose proof (term_step_invA s a (i :: w) H) as H1. rewrite Et in H1; simpl in H1.
          pose proof (term_step_frame s a (i :: w) a) as F. rewrite Et in F; simpl in F.
          apply invA_local; auto.
          pose proof (ia_pc _ H1 a) as Hp. destruct F as (F1 & F2 & F3 & F4 & F5 & F6).
          pcs H a Ep.
          unfold pc_ok in *; simpl. rewrite F1, Ep in Hp.
          destruct Hp as (P1 & P2 & P3). repeat split; auto.
          destruct Hp0 as (_ & _ & [Q|Q]); [left; auto|].
          destruct (term_step_work_TTake s a (i :: w) a Q) as [R|[w' R]].
          -- rewrite Et in R; simpl in R; auto.
          -- inversion R; subst. left.
             pose proof (term_step_take_closed s a a w') as C. rewrite Et in C; simpl in C; auto.
    - (* LExitGraceful *)
      destruct (created (s a)) eqn:Ec; auto. destruct (apc (s a)) eqn:Ep; auto.
      destruct (2 <=? rank (st (s a))) eqn:E1; auto.
      apply invA_local; auto. pcs H a Ep. unfold pc_ok; simpl. rewrite rank_smax; simpl.
      intuition lia.
    - (* LExitAbrupt *)
      destruct (created (s a)) eqn:Ec; auto. destruct (apc (s a)) eqn:Ep; auto.
      apply invA_local; auto. pcs H a Ep. unfold pc_ok; simpl. intuition lia.
    - (* LPostStopDone *)
      destruct (apc (s a)) eqn:Ep; auto.
      apply invA_local; auto. pcs H a Ep. unfold pc_ok; simpl. intuition lia.
    - (* LClean *)
      destruct (apc (s a)) eqn:Ep; auto.
      + apply invA_local; auto. pcs H a Ep. unfold pc_ok; simpl. rewrite rank_smax; simpl.
        intuition lia.
      + apply invA_local; auto. pcs H a Ep. unfold pc_ok; simpl. intuition.
      + apply invA_local; auto. pcs H a Ep. unfold pc_ok; simpl. intuition.
      + destruct sup as [q|].
        * pose proof (invA_unlink s a q H) as H1.
          apply invA_local; auto.
          pcs H a Ep. destruct Hp as (P1 & P2 & P3 & P4).
          pose proof (unlink_frame s a q a) as (F1 & F2 & F3 & F4 & F5 & F6).
          unfold pc_ok; simpl. rewrite F2. repeat split; auto.
          destruct (oeq (supervisor (s a)) q) eqn:Eo.
          -- apply oeq_true in Eo. destruct (unlink_fields s a q a Eo) as (_ & _ & Hs).
             now rewrite N.eqb_refl in Hs.
          -- apply oeq_false in Eo. rewrite unlink_noop; auto. destruct P4; congruence.
        * apply invA_local; auto. pcs H a Ep. unfold pc_ok; simpl. intuition.
      + apply invA_local; auto. pcs H a Ep. unfold pc_ok; simpl. intuition.
  Qed.
End RuleA.

(* ---------------------------------------------------------------------------------- *)
(* every step = one global operation followed by a local update of the acting actor *)

Inductive gop (s : state) : state -> Prop :=
| g_id : gop s s
| g_link c p : gop s (fst (do_link s c p))
| g_unlink c p : gop s (do_unlink s c p)
| g_kill x : gop s (do_kill s x)
| g_take t x : gop s (fst (do_take s t x)).

Definition lop (x y : actor) : Prop :=
  children y = children x /\ supervisor y = supervisor x /\ doomed y = doomed x
  /\ rank (st x) <= rank (st y) /\ (created x = true -> created y = true)
  /\ (sg x <> SigNone -> sg y <> SigNone).

Lemma lop_refl : forall x, lop x x.
Proof. intros x; unfold lop; repeat split; auto; lia. Qed.

Lemma gop_frame : forall s g, gop s g -> forall b, frame_rel (s b) (g b).
Proof.
  intros s g H b. destruct H.
  - apply frame_refl. - apply link_frame. - apply unlink_frame. - apply kill_frame. - apply take_frame.
Qed.

Lemma upd_id : forall s a b, upd s a (s a) b = s b.
Proof. intros s a b; unfold upd. destruct (N.eqb_spec b a) as [->|]; auto. Qed.

Section RuleB.
  Variable kill_rule : status -> bool.

  Lemma term_step_gop : forall s t w, gop s (fst (term_step kill_rule s t w)).
  Proof.
    intros s t w. destruct w as [|[x|x] w]; simpl; try constructor.
    - destruct (kill_rule _); constructor.
    - destruct (do_take s t x) as [s1 l] eqn:E. simpl. change s1 with (fst (s1, l)). rewrite <- E. constructor.
  Qed.

  Lemma step_decomp : forall l s,
    exists g a y, gop s g /\ lop (g a) y /\ forall b, step kill_rule l s b = upd g a y b.
  Proof.
    intros l s.
    assert (Hid : forall a : aid, exists g a0 y, gop s g /\ lop (g a0) y /\ forall b, s b = upd g a0 y b).
    { intros a. exists s, a, (s a). split; [constructor|]. split; [apply lop_refl|]. intros b; now rewrite upd_id. }
    assert (Hloc : forall a y, lop (s a) y ->
              exists g a0 y0, gop s g /\ lop (g a0) y0 /\ forall b, upd s a y b = upd g a0 y0 b).
    { intros a y Hl. exists s, a, y. split; [constructor|]. split; auto. }
    destruct l as [a|c p|c p|a|a|a|a|a|a|a|a|a|a]; simpl.
    - apply Hloc. unfold lop; simpl; repeat split; auto; lia.
    - exists (fst (do_link s c p)), c, (fst (do_link s c p) c). split; [constructor|]. split; [apply lop_refl|].
      intros b; now rewrite upd_id.
    - exists (do_unlink s c p), c, (do_unlink s c p c). split; [constructor|]. split; [apply lop_refl|].
      intros b; now rewrite upd_id.
    - exists (do_kill s a), a, (do_kill s a a). split; [constructor|]. split; [apply lop_refl|].
      intros b; now rewrite upd_id.
    - destruct (rank (st (s a)) <? 5) eqn:E; [|apply (Hid a)]. apply N.ltb_lt in E.
      apply Hloc. unfold lop; simpl; repeat split; auto; lia.
    - destruct (created (s a)); [|apply (Hid a)]. destruct (st (s a)) eqn:Es; try apply (Hid a).
      destruct (apc (s a)); try apply (Hid a).
      apply Hloc. unfold lop; simpl; repeat split; auto. rewrite Es; simpl; lia.
    - destruct (created (s a)); [|apply (Hid a)]. destruct (apc (s a)); try apply (Hid a).
      destruct (1 <=? _); [|apply (Hid a)].
      apply Hloc. unfold lop; simpl; repeat split; auto. rewrite rank_smax; lia.
    - destruct (created (s a)); [|apply (Hid a)]. destruct (sg (s a)) eqn:Es; try apply (Hid a).
      destruct (1 <=? _); [|apply (Hid a)].
      destruct (apc (s a)); try apply (Hid a);
        apply Hloc; unfold lop; simpl; repeat split; auto; try lia; congruence.
    - destruct (apc (s a)) eqn:Ep; try apply (Hid a).
      + destruct w as [|i w].
        * apply Hloc. unfold lop; simpl; repeat split; auto; lia.
        * destruct (term_step kill_rule s a (i :: w)) as [s1 w1] eqn:Et.
          exists s1, a, (set_pc (PSigTerm w1) (s1 a)). split.
          { change s1 with (fst (s1, w1)). rewrite <- Et. apply term_step_gop. }
          split; auto. unfold lop; simpl; repeat split; auto; lia.
      + destruct w as [|i w].
        * apply Hloc. unfold lop; simpl; repeat split; auto; lia.
        * destruct (term_step kill_rule s a (i :: w)) as [s1 w1] eqn:Et.
          exists s1, a, (set_pc (PCleanTerm w1) (s1 a)). split.
          { change s1 with (fst (s1, w1)). rewrite <- Et. apply term_step_gop. }
          split; auto. unfold lop; simpl; repeat split; auto; lia.
    - destruct (created (s a)); [|apply (Hid a)]. destruct (apc (s a)); try apply (Hid a).
      destruct (2 <=? _); [|apply (Hid a)].
      apply Hloc. unfold lop; simpl; repeat split; auto. rewrite rank_smax; lia.
    - destruct (created (s a)); [|apply (Hid a)]. destruct (apc (s a)); try apply (Hid a).
      apply Hloc. unfold lop; simpl; repeat split; auto; lia.
    - destruct (apc (s a)); try apply (Hid a).
      apply Hloc. unfold lop; simpl; repeat split; auto; lia.
    - destruct (apc (s a)); try apply (Hid a).
      + apply Hloc. unfold lop; simpl; repeat split; auto. rewrite rank_smax; lia.
      + apply Hloc. unfold lop; simpl; repeat split; auto; lia.
      + apply Hloc. unfold lop; simpl; repeat split; auto; lia.
      + destruct sup as [q|].
        * exists (do_unlink s a q), a, (set_pc PPubStopped (do_unlink s a q a)). split; [constructor|].
          split; auto. unfold lop; simpl; repeat split; auto; lia.
        * apply Hloc. unfold lop; simpl; repeat split; auto; lia.
      + apply Hloc. unfold lop; simpl; repeat split; auto.
        pose proof (rank_le6 (st (s a))). simpl; lia.
  Qed.

  (* T5: the status never moves backwards *)
  Theorem rank_mono : forall l s b, rank (st (s b)) <= rank (st (step kill_rule l s b)).
  Proof.
    intros l s b. destruct (step_decomp l s) as (g & a & y & G & L & E). rewrite E.
    destruct (gop_frame _ _ G b) as (_ & Hst & _). unfold upd.
    destruct (N.eqb_spec b a) as [->|].
    - destruct L as (_ & _ & _ & L & _). destruct (gop_frame _ _ G a) as (_ & Hst' & _). rewrite <- Hst'. auto.
    - rewrite Hst. lia.
  Qed.

  (* T4: a closed child set stays closed *)
  Theorem closed_stays : forall l s b, children (s b) = None -> children (step kill_rule l s b) = None.
  Proof.
    intros l s b H. destruct (step_decomp l s) as (g & a & y & G & L & E). rewrite E.
    destruct (gop_frame _ _ G b) as (_ & _ & _ & _ & Hc & _). unfold upd.
    destruct (N.eqb_spec b a) as [->|]; auto.
    destruct L as (L & _). rewrite L. auto.
  Qed.

  Lemma gop_no_adopt : forall s g c p, gop s g ->
    4 <= rank (st (s p)) \/ children (s p) = None ->
    child_of g c p -> child_of s c p.
  Proof.
    intros s g c p G Hp. destruct G as [|c' p'|c' p'|x|t x]; auto.
    - destruct (do_link s c' p') as [s' ok] eqn:E; simpl. destruct ok; [|now rewrite (link_false _ _ _ _ E)].
      destruct (link_true _ _ _ _ E) as (_ & _ & _ & Hr & l & Hl & F).
      unfold child_of. destruct (F p) as (_ & -> & _).
      destruct (N.eqb_spec p p') as [->|Hpp]; [destruct Hp; [lia|congruence]|].
      destruct (oeq _ p); auto.
      intros (l0 & E0 & Hin). destruct (children (s p)) as [l1|]; simpl in E0; inversion E0; subst.
      exists l1; split; auto. apply In_remove in Hin; tauto.
    - destruct (oeq (supervisor (s c')) p') eqn:Eo.
      + apply oeq_true in Eo. unfold child_of. destruct (unlink_fields s c' p' p Eo) as (_ & -> & _).
        destruct (N.eqb_spec p p') as [->|]; auto.
        intros (l0 & E0 & Hin). destruct (children (s p')) as [l1|]; simpl in E0; inversion E0; subst.
        exists l1; split; auto. apply In_remove in Hin; tauto.
      + apply oeq_false in Eo. now rewrite unlink_noop.
    - unfold child_of. destruct (kill_fields s x p) as (_ & _ & -> & _). auto.
    - unfold child_of. destruct (children (s x)) as [l|] eqn:El.
      + destruct (take_fields s t x l p El) as (_ & _ & _ & _ & -> & _).
        destruct (p =? x); auto. intros (l0 & E0 & _); discriminate.
      + now rewrite take_none.
  Qed.

  (* no adoption: an actor that is Draining/Stopping/Stopped, or whose child set is closed, gains no child *)
  Theorem no_adoption_parent : forall l s c p,
    4 <= rank (st (s p)) \/ children (s p) = None ->
    child_of (step kill_rule l s) c p -> child_of s c p.
  Proof.
    intros l s c p Hp Hc. destruct (step_decomp l s) as (g & a & y & G & L & E).
    apply (gop_no_adopt s g c p G Hp).
    unfold child_of in *. rewrite E in Hc. unfold upd in Hc.
    destruct (N.eqb_spec p a) as [->|]; auto. destruct L as (L & _). now rewrite L in Hc.
  Qed.

  (* ... and such an actor is never given a (new) supervisor *)
  Theorem no_adoption_child : forall l s c p,
    4 <= rank (st (s c)) ->
    supervisor (step kill_rule l s c) = Some p -> supervisor (s c) = Some p.
  Proof.
    intros l s c p Hc Hs. destruct (step_decomp l s) as (g & a & y & G & L & E).
    rewrite E in Hs. unfold upd in Hs.
    assert (Hg : supervisor (g c) = Some p).
    { destruct (N.eqb_spec c a) as [->|]; auto. destruct L as (_ & L & _). now rewrite L in Hs. }
    destruct (gop_frame _ _ G c) as (_ & _ & _ & _ & _ & [F|[F|F]]); try congruence; lia.
  Qed.

  (* the link operation itself: refused => nothing changes *)
  Theorem link_refused : forall s c p,
    4 <= rank (st (s c)) \/ 4 <= rank (st (s p)) \/ children (s p) = None ->
    do_link s c p = (s, false).
  Proof.
    intros s c p H. destruct (do_link s c p) as [s' ok] eqn:E.
    destruct ok; [|now rewrite (link_false _ _ _ _ E)].
    destruct (link_true _ _ _ _ E) as (_ & _ & H1 & H2 & l & Hl & _).
    destruct H as [H|[H|H]]; try lia; congruence.
  Qed.

  Theorem link_accepted : forall s c p s', do_link s c p = (s', true) -> child_of s' c p.
  Proof.
    intros s c p s' E. destruct (link_true _ _ _ _ E) as (_ & _ & _ & _ & l & Hl & F).
    unfold child_of. destruct (F p) as (_ & -> & _). rewrite N.eqb_refl.
    exists (add c l); split; auto. apply In_add; auto.
  Qed.
End RuleB.

(* ---------------------------------------------------------------------------------- *)
(* every detached actor is killed (needs the repaired kill rule) *)

Lemma In_items : forall c l, In c l -> In (TKill c) (items l).
Proof.
  intros c l H. unfold items. apply in_flat_map. exists c; split; auto. simpl; auto.
Qed.

Lemma kos_lop : forall x y, kos x -> lop x y -> kos y.
Proof.
  intros x y [H|H] (_ & _ & _ & L1 & _ & L2); [left; auto|right; lia].
Qed.

Lemma work_upd_other : forall s a y t, t <> a -> work (upd s a y) t = work s t.
Proof. intros; unfold work. now rewrite upd_other. Qed.

Section RuleC.
  Variable kill_rule : status -> bool.
  (* the rule of the current tree: whatever is not killed is already Stopping or Stopped *)
  Hypothesis rule_ok : forall st0, kill_rule st0 = false -> 5 <= rank st0.

  (* a step that is not a step of terminate(): the ghost marks are untouched, work lists only grow *)
  Lemma doomed_ok_simple : forall s s' g a y,
    doomed_ok s ->
    (forall b, frame_rel (s b) (g b)) -> (forall b, doomed (g b) = doomed (s b)) ->
    lop (g a) y -> (forall i, In i (work_of (apc (g a))) -> In i (work_of (apc y))) ->
    (forall b, s' b = upd g a y b) ->
    doomed_ok s'.
  Proof.
    intros s s' g a y D F Dm L W E c t Hd.
    assert (Hd0 : doomed (s c) = Some t).
    { rewrite E in Hd. unfold upd in Hd. destruct (N.eqb_spec c a) as [->|].
      - destruct L as (_ & _ & L & _). rewrite L, Dm in Hd. auto.
      - now rewrite Dm in Hd. }
    destruct (D _ _ Hd0) as (Hc & Hk). split.
    - rewrite E. unfold upd. destruct (F c) as (_ & _ & Fc & _).
      destruct (N.eqb_spec c a) as [->|]; auto. destruct L as (_ & _ & _ & _ & L & _). auto.
    - destruct Hk as [Hk|Hk].
      + left. rewrite E. unfold upd. pose proof (frame_kos _ _ Hk (F c)) as Hk'.
        destruct (N.eqb_spec c a) as [->|]; auto. apply (kos_lop (g a)); auto.
      + right. unfold work in *. rewrite E. unfold upd.
        destruct (F t) as (Ft & _).
        destruct (N.eqb_spec t a) as [->|]; [apply W|]; now rewrite Ft.
  Qed.

  Lemma term_case : forall (P : list titem -> pc) s a i w,
    (forall w0, work_of (P w0) = w0) ->
    InvA s -> doomed_ok s -> apc (s a) = P (i :: w) ->
    doomed_ok (let '(s1, w1) := term_step kill_rule s a (i :: w) in upd s1 a (set_pc (P w1) (s1 a))).
  Proof.
    intros P s a i w HP HA D Ep.
    assert (Hwa : work s a = i :: w) by (unfold work; now rewrite Ep, HP).
    destruct i as [x|x]; simpl.
    - (* TKill x *)
      set (g := if kill_rule (st (s x)) then do_kill s x else s).
      assert (Fg : forall b, frame_rel (s b) (g b)).
      { intros b; unfold g. destruct (kill_rule _); [apply kill_frame|apply frame_refl]. }
      assert (Dg : forall b, doomed (g b) = doomed (s b)).
      { intros b; unfold g. destruct (kill_rule _); auto.
        destruct (kill_fields s x b) as (_ & _ & _ & _ & _ & F & _); auto. }
      assert (Kx : kos (g x)).
      { unfold g. destruct (kill_rule (st (s x))) eqn:Ek.
        - left. apply kill_sg_self.
        - right. now apply rule_ok. }
      intros c t Hd.
      assert (Hd0 : doomed (s c) = Some t).
      { unfold upd in Hd. destruct (N.eqb_spec c a) as [->|]; simpl in Hd; now rewrite Dg in Hd. }
      destruct (D _ _ Hd0) as (Hc & Hk).
      assert (Kpres : forall b, kos (g b) -> kos (upd g a (set_pc (P w) (g a)) b)).
      { intros b Hb. unfold upd. destruct (N.eqb_spec b a) as [->|]; auto. }
      split.
      + unfold upd. destruct (Fg c) as (_ & _ & Fc & _). destruct (N.eqb_spec c a) as [->|]; simpl; auto.
      + destruct Hk as [Hk|Hk].
        * left. apply Kpres. eapply frame_kos; eauto.
        * destruct (N.eqb_spec t a) as [->|Hta].
          -- rewrite Hwa in Hk. destruct Hk as [Hk|Hk].
             ++ inversion Hk; subst. left. now apply Kpres.
             ++ right. unfold work. rewrite upd_same. simpl. now rewrite HP.
          -- right. rewrite work_upd_other; auto. unfold work in *. destruct (Fg t) as (Ft & _). now rewrite Ft.
    - (* TTake x *)
      destruct (do_take s a x) as [g l] eqn:Et.
      destruct (children (s x)) as [l0|] eqn:El.
      + assert (Hl : l = l0 /\ g = fst (do_take s a x)) by (rewrite Et; rewrite take_some with (l:=l0) in Et; auto; inversion Et; auto).
        destruct Hl as [-> Hg].
        assert (TF := fun b => take_fields s a x l0 b El). simpl in TF. rewrite <- Hg in TF.
        intros c t Hd.
        assert (Hdg : doomed (g c) = Some t).
        { unfold upd in Hd. destruct (N.eqb_spec c a) as [->|]; simpl in Hd; auto. }
        destruct (TF c) as (T1 & T2 & T3 & T4 & T5 & T6 & T7).
        assert (Fg : forall b, frame_rel (s b) (g b)) by (intros b; rewrite Hg; apply take_frame).
        assert (Kpres : forall b, kos (g b) -> kos (upd g a (set_pc (P (items l0 ++ w)) (g a)) b)).
        { intros b Hb. unfold upd. destruct (N.eqb_spec b a) as [->|]; auto. }
        rewrite T7 in Hdg. destruct (mem c l0) eqn:Em.
        * (* newly detached by a *)
          inversion Hdg; subst t. apply mem_In in Em. split.
          -- assert (Hs : supervisor (s c) = Some x) by (apply (ia_two _ HA); exists l0; auto).
             destruct (ia_cr _ HA _ _ Hs) as (Hc & _).
             unfold upd. destruct (N.eqb_spec c a) as [->|]; simpl; congruence.
          -- right. unfold work. rewrite upd_same. simpl. rewrite HP. apply in_or_app. left. now apply In_items.
        * destruct (D _ _ Hdg) as (Hc & Hk). split.
          -- unfold upd. destruct (N.eqb_spec c a) as [->|]; simpl; congruence.
          -- destruct Hk as [Hk|Hk].
             ++ left. apply Kpres. eapply frame_kos; eauto.
             ++ right. destruct (N.eqb_spec t a) as [->|Hta].
                ** rewrite Hwa in Hk. destruct Hk as [Hk|Hk]; [discriminate|].
                   unfold work. rewrite upd_same. simpl. rewrite HP. apply in_or_app; auto.
                ** rewrite work_upd_other; auto. unfold work in *. destruct (Fg t) as (Ft & _). now rewrite Ft.
      + rewrite take_none in Et; auto. inversion Et; subst g l. simpl.
        intros c t Hd.
        assert (Hd0 : doomed (s c) = Some t).
        { unfold upd in Hd. destruct (N.eqb_spec c a) as [->|]; simpl in Hd; auto. }
        destruct (D _ _ Hd0) as (Hc & Hk). split.
        * unfold upd. destruct (N.eqb_spec c a) as [->|]; simpl; auto.
        * destruct Hk as [Hk|Hk].
          -- left. unfold upd. destruct (N.eqb_spec c a) as [->|]; auto.
          -- right. destruct (N.eqb_spec t a) as [->|Hta].
             ++ rewrite Hwa in Hk. destruct Hk as [Hk|Hk]; [discriminate|].
                unfold work. rewrite upd_same. simpl. now rewrite HP.
             ++ rewrite work_upd_other; auto.
  Qed.

  Theorem doomed_ok_step : forall l s, InvA s -> doomed_ok s -> doomed_ok (step kill_rule l s).
  Proof.
    intros l s HA D.
    (* generic argument for all labels whose global part is not a take and whose work list grows *)
    assert (Hloc : forall a y, lop (s a) y ->
              (forall i, In i (work_of (apc (s a))) -> In i (work_of (apc y))) ->
              doomed_ok (upd s a y)).
    { intros a y L W. apply (doomed_ok_simple s (upd s a y) s a y); auto. intros; apply frame_refl. }
    destruct l as [a|c p|c p|a|a|a|a|a|a|a|a|a|a]; simpl.
    - apply Hloc; [unfold lop; simpl; repeat split; auto; lia|auto].
    - apply (doomed_ok_simple s _ (fst (do_link s c p)) c (fst (do_link s c p) c)); auto.
      + intros b; apply link_frame.
      + intros b. destruct (do_link s c p) as [s' ok] eqn:E; simpl.
        destruct ok; [|now rewrite (link_false _ _ _ _ E)].
        destruct (link_true _ _ _ _ E) as (_ & _ & _ & _ & l & _ & F). destruct (F b) as ((_ & _ & _ & _ & F5) & _); auto.
      + apply lop_refl.
      + intros b; now rewrite upd_id.
    - apply (doomed_ok_simple s _ (do_unlink s c p) c (do_unlink s c p c)); auto.
      + intros b; apply unlink_frame.
      + intros b. destruct (oeq (supervisor (s c)) p) eqn:Eo.
        * apply oeq_true in Eo. destruct (unlink_fields s c p b Eo) as ((_ & _ & _ & _ & F5) & _); auto.
        * apply oeq_false in Eo. now rewrite unlink_noop.
      + apply lop_refl.
      + intros b; now rewrite upd_id.
    - apply (doomed_ok_simple s _ (do_kill s a) a (do_kill s a a)); auto.
      + intros b; apply kill_frame.
      + intros b. destruct (kill_fields s a b) as (_ & _ & _ & _ & _ & F & _); auto.
      + apply lop_refl.
      + intros b; now rewrite upd_id.
    - destruct (rank (st (s a)) <? 5) eqn:E; auto. apply N.ltb_lt in E.
      apply Hloc; [unfold lop; simpl; repeat split; auto; lia|auto].
    - destruct (created (s a)); auto. destruct (st (s a)) eqn:Es; auto. destruct (apc (s a)) eqn:Ep; auto.
      apply Hloc; [unfold lop; simpl; repeat split; auto; rewrite Es; simpl; lia|simpl; now rewrite Ep].
    - destruct (created (s a)); auto. destruct (apc (s a)) eqn:Ep; auto. destruct (1 <=? _); auto.
      apply Hloc; [unfold lop; simpl; repeat split; auto; rewrite rank_smax; lia|simpl; now rewrite Ep].
    - destruct (created (s a)); auto. destruct (sg (s a)) eqn:Es; auto. destruct (1 <=? _); auto.
      destruct (apc (s a)) eqn:Ep; auto;
        (apply Hloc; [unfold lop; simpl; repeat split; auto; try lia; congruence|simpl; rewrite Ep; simpl; tauto]).
    - (* LTerm: the only label that pops work items and marks actors *)
      destruct (apc (s a)) eqn:Ep; auto.
      + destruct w as [|i w].
        * apply Hloc; [unfold lop; simpl; repeat split; auto; lia|simpl; now rewrite Ep].
        * apply (term_case PSigTerm); auto.
      + destruct w as [|i w].
        * apply Hloc; [unfold lop; simpl; repeat split; auto; lia|simpl; now rewrite Ep].
        * apply (term_case PCleanTerm); auto.
    - destruct (created (s a)); auto. destruct (apc (s a)) eqn:Ep; auto. destruct (2 <=? _); auto.
      apply Hloc; [unfold lop; simpl; repeat split; auto; rewrite rank_smax; lia|simpl; now rewrite Ep].
    - destruct (created (s a)); auto. destruct (apc (s a)) eqn:Ep; auto.
      apply Hloc; [unfold lop; simpl; repeat split; auto; lia|simpl; now rewrite Ep].
    - destruct (apc (s a)) eqn:Ep; auto.
      apply Hloc; [unfold lop; simpl; repeat split; auto; lia|simpl; now rewrite Ep].
    - destruct (apc (s a)) eqn:Ep; auto.
      + apply Hloc; [unfold lop; simpl; repeat split; auto; rewrite rank_smax; lia|simpl; now rewrite Ep].
      + apply Hloc; [unfold lop; simpl; repeat split; auto; lia|simpl; now rewrite Ep].
      + apply Hloc; [unfold lop; simpl; repeat split; auto; lia|simpl; now rewrite Ep].
      + destruct sup as [q|].
        * apply (doomed_ok_simple s _ (do_unlink s a q) a (set_pc PPubStopped (do_unlink s a q a))); auto.
          -- intros b; apply unlink_frame.
          -- intros b. destruct (oeq (supervisor (s a)) q) eqn:Eo.
             ++ apply oeq_true in Eo. destruct (unlink_fields s a q b Eo) as ((_ & _ & _ & _ & F5) & _); auto.
             ++ apply oeq_false in Eo. now rewrite unlink_noop.
          -- unfold lop; simpl; repeat split; auto; lia.
          -- destruct (unlink_frame s a q a) as (F1 & _). rewrite F1, Ep. simpl; tauto.
        * apply Hloc; [unfold lop; simpl; repeat split; auto; lia|simpl; now rewrite Ep].
      + apply Hloc; [unfold lop; simpl; repeat split; auto; pose proof (rank_le6 (st (s a))); simpl; lia|simpl; now rewrite Ep].
  Qed.
End RuleC.

(* ---------------------------------------------------------------------------------- *)
(* reachable states *)

Definition reachable (kill_rule : status -> bool) (s : state) : Prop :=
  exists ls, s = exec kill_rule ls init.

Lemma reachable_init : forall r, reachable r init.
Proof. intros r; exists []; reflexivity. Qed.

Lemma reachable_step : forall r l s, reachable r s -> reachable r (step r l s).
Proof.
  intros r l s [ls ->]. exists (ls ++ [l]). unfold exec. now rewrite fold_left_app.
Qed.

Lemma reachable_exec : forall r ls s, reachable r s -> reachable r (exec r ls s).
Proof.
  intros r ls. induction ls as [|l ls IH]; intros s H; simpl; auto.
  apply IH. now apply reachable_step.
Qed.

Lemma invA_init : InvA init.
Proof.
  split.
  - intros c p. unfold child_of, init; simpl. split; [discriminate|].
    intros (l & E & Hin). inversion E; subst. destruct Hin.
  - intros a. unfold pc_ok, init; simpl. split; [lia|discriminate].
  - intros c p. unfold init; simpl. discriminate.
Qed.

Lemma doomed_ok_init : doomed_ok init.
Proof. intros c t. unfold init; simpl. discriminate. Qed.

Lemma invA_reachable : forall r s, reachable r s -> InvA s.
Proof.
  intros r s [ls ->]. unfold exec.
  assert (G : forall ls s0, InvA s0 -> InvA (fold_left (fun s l => step r l s) ls s0)).
  { induction ls0 as [|l ls0 IH]; intros s0 H; simpl; auto. apply IH. now apply invA_step. }
  apply G, invA_init.
Qed.

Lemma rule_fixed_ok : forall st0, rule_fixed st0 = false -> 5 <= rank st0.
Proof. intros st0; unfold rule_fixed. intros H. apply N.ltb_ge in H. lia. Qed.

Lemma doomed_ok_reachable : forall s, reachable rule_fixed s -> doomed_ok s.
Proof.
  intros s [ls ->]. unfold exec.
  assert (G : forall ls s0, InvA s0 -> doomed_ok s0 ->
            doomed_ok (fold_left (fun s l => step rule_fixed l s) ls s0)).
  { induction ls0 as [|l ls0 IH]; intros s0 H D; simpl; auto. apply IH.
    - now apply invA_step.
    - apply doomed_ok_step; auto. apply rule_fixed_ok. }
  apply G; [apply invA_init|apply doomed_ok_init].
Qed.

(* ---- the statements of C05 over reachable states ---- *)

Theorem two_sided_reachable : forall r s, reachable r s -> two_sided s.
Proof. intros r s H. apply (ia_two _ (invA_reachable r s H)). Qed.

Corollary one_supervisor : forall r s c p q, reachable r s ->
  child_of s c p -> child_of s c q -> p = q.
Proof.
  intros r s c p q H Hp Hq. pose proof (two_sided_reachable r s H) as T.
  apply T in Hp. apply T in Hq. congruence.
Qed.

Theorem stopped_is_bare : forall r s a, reachable r s ->
  st (s a) = Stopped -> supervisor (s a) = None /\ children (s a) = None.
Proof.
  intros r s a H Hs. pose proof (ia_pc _ (invA_reachable r s H) a) as Hp.
  unfold pc_ok in Hp. destruct (apc (s a)); rewrite Hs in Hp; simpl in Hp; intuition (try lia; try discriminate).
Qed.

Theorem subtree_killed : forall s c t, reachable rule_fixed s ->
  doomed (s c) = Some t -> kos (s c) \/ In (TKill c) (work s t).
Proof. intros s c t H Hd. apply (doomed_ok_reachable s H c t Hd). Qed.

(* once the terminate() that detached c has completed, c has been killed *)
Corollary subtree_killed_after_cleanup : forall s c t, reachable rule_fixed s ->
  doomed (s c) = Some t -> work s t = [] -> kos (s c).
Proof.
  intros s c t H Hd Hw. destruct (subtree_killed s c t H Hd) as [K|K]; auto. rewrite Hw in K. destruct K.
Qed.

(* after the cleanup's terminate() the actor's own child set is closed for good *)
Theorem closed_after_cleanup : forall r s p, reachable r s ->
  match apc (s p) with PNotify | PReadSup | PUnlink _ | PPubStopped | PDone => True | _ => False end ->
  children (s p) = None.
Proof.
  intros r s p H Hp. pose proof (ia_pc _ (invA_reachable r s H) p) as Q.
  unfold pc_ok in Q. destruct (apc (s p)); try contradiction; intuition.
Qed.

(* progress: quiescent = no obligation of any actor's own task is enabled *)
Definition quiescent (s : state) : Prop := forall a, enabled_internal s a = false.

Theorem subtree_stops : forall s c t, reachable rule_fixed s -> quiescent s ->
  doomed (s c) = Some t ->
  st (s c) = Stopped \/ (apc (s c) = PPostStop /\ sg (s c) = SigNone).
Proof.
  intros s c t H Q Hd.
  pose proof (invA_reachable _ s H) as HA.
  destruct (doomed_ok_reachable s H c t Hd) as (Hc & Hk).
  assert (Hw : work s t = []).
  { pose proof (Q t) as Qt. unfold enabled_internal in Qt.
    pose proof (ia_pc _ HA t) as Pt. unfold pc_ok in Pt. unfold work.
    destruct (apc (s t)); simpl in *; auto.
    - destruct Pt as (_ & Pt); rewrite Pt in Qt; discriminate.
    - destruct Pt as (_ & Pt & _); rewrite Pt in Qt; discriminate. }
  rewrite Hw in Hk. destruct Hk as [Hk|[]].
  pose proof (Q c) as Qc. unfold enabled_internal in Qc. rewrite Hc in Qc. simpl in Qc.
  pose proof (ia_pc _ HA c) as Pc. unfold pc_ok in Pc.
  apply orb_false_iff in Qc. destruct Qc as [Qc Q3]. apply orb_false_iff in Qc. destruct Qc as [Q1 Q2].
  unfold sig_visible, startable in *.
  destruct (apc (s c)) eqn:Ep; simpl in Q1; try discriminate.
  - (* PLive *) exfalso. destruct Pc as (P1 & P2). destruct Hk as [Hk|Hk]; [|lia].
    destruct (sg (s c)) eqn:Es; try congruence.
    apply N.leb_gt in Q2. destruct (st (s c)); simpl in *; try lia; discriminate.
  - (* PPostStop *) right. split; auto. destruct Pc as (P1 & P2 & _).
    destruct (sg (s c)) eqn:Es; auto; try congruence.
    apply N.leb_gt in Q2. lia.
  - left. tauto.
Qed.

Corollary subtree_stops_all : forall s c t, reachable rule_fixed s -> quiescent s ->
  (forall a, apc (s a) <> PPostStop) ->
  doomed (s c) = Some t -> st (s c) = Stopped.
Proof.
  intros s c t H Q N Hd. destruct (subtree_stops s c t H Q Hd) as [E|[E _]]; auto. destruct (N _ E).
Qed.

(* ---- race outcome: how a child can leave its supervisor's set ---- *)

Lemma link_keeps : forall s c' p' c p, c' <> c -> child_of s c p -> child_of (fst (do_link s c' p')) c p.
Proof.
  intros s c' p' c p Hcc Hc.
  destruct (do_link s c' p') as [s' ok] eqn:E; simpl. destruct ok; [|now rewrite (link_false _ _ _ _ E)].
  destruct (link_true _ _ _ _ E) as (_ & _ & _ & _ & l & Hl & F).
  destruct Hc as (l0 & E0 & Hin). unfold child_of. destruct (F p) as (_ & -> & _).
  destruct (N.eqb_spec p p') as [->|].
  - rewrite Hl in E0; inversion E0; subst. exists (add c' l0); split; auto. apply In_add; auto.
  - destruct (oeq _ p).
    + rewrite E0. simpl. exists (remove c' l0); split; auto. apply In_remove; auto.
    + eauto.
Qed.

Lemma unlink_keeps : forall s c' p' c p, c' <> c -> child_of s c p -> child_of (do_unlink s c' p') c p.
Proof.
  intros s c' p' c p Hcc Hc.
  destruct (oeq (supervisor (s c')) p') eqn:Eo.
  2:{ apply oeq_false in Eo. rewrite unlink_noop; auto. }
  apply oeq_true in Eo. destruct Hc as (l0 & E0 & Hin). unfold child_of.
  destruct (unlink_fields s c' p' p Eo) as (_ & -> & _).
  destruct (N.eqb_spec p p') as [->|]; eauto.
  rewrite E0; simpl. exists (remove c' l0); split; auto. apply In_remove; auto.
Qed.

Lemma kill_keeps : forall s x c p, child_of s c p -> child_of (do_kill s x) c p.
Proof.
  intros s x c p Hc. unfold child_of. destruct (kill_fields s x p) as (_ & _ & -> & _). auto.
Qed.

Lemma take_keeps_or_dooms : forall s t x c p, child_of s c p ->
  child_of (fst (do_take s t x)) c p \/ doomed (fst (do_take s t x) c) = Some t.
Proof.
  intros s t x c p Hc. destruct (N.eqb_spec x p) as [->|Hxp].
  - right. destruct Hc as (l0 & E0 & Hin).
    destruct (take_fields s t p l0 c E0) as (_ & _ & _ & _ & _ & _ & ->).
    apply mem_In in Hin. now rewrite Hin.
  - left. unfold child_of. destruct (children (s x)) as [l|] eqn:El.
    + destruct (take_fields s t x l p El) as (_ & _ & _ & _ & -> & _).
      apply N.eqb_neq in Hxp. rewrite N.eqb_sym in Hxp. rewrite Hxp. auto.
    + rewrite take_none; auto.
Qed.

Lemma child_of_upd : forall s a y c p, children y = children (s a) ->
  child_of s c p -> child_of (upd s a y) c p.
Proof.
  intros s a y c p E Hc. unfold child_of, upd. destruct (N.eqb_spec p a) as [->|]; auto. now rewrite E.
Qed.

(* the labels by which c itself leaves: an explicit unlink / relink of c, or c's own cleanup *)
Definition moves (c : aid) (l : label) : Prop :=
  match l with
  | LUnlink c' _ | LLink c' _ | LClean c' => c' = c
  | _ => False
  end.

Section Race.
  Variable kill_rule : status -> bool.

  Lemma doomed_stays : forall l s c, doomed (s c) <> None -> doomed (step kill_rule l s c) <> None.
  Proof.
    intros l s c H. destruct (step_decomp kill_rule l s) as (g & a & y & G & L & E). rewrite E.
    assert (Hg : doomed (g c) <> None).
    { destruct G as [|c' p'|c' p'|x|t x]; auto.
      - destruct (do_link s c' p') as [s' ok] eqn:El; simpl. destruct ok; [|now rewrite (link_false _ _ _ _ El)].
        destruct (link_true _ _ _ _ El) as (_ & _ & _ & _ & l0 & _ & F). destruct (F c) as ((_ & _ & _ & _ & F5) & _). congruence.
      - destruct (oeq (supervisor (s c')) p') eqn:Eo.
        + apply oeq_true in Eo. destruct (unlink_fields s c' p' c Eo) as ((_ & _ & _ & _ & F5) & _). congruence.
        + apply oeq_false in Eo. now rewrite unlink_noop.
      - destruct (kill_fields s x c) as (_ & _ & _ & _ & _ & F & _). congruence.
      - destruct (children (s x)) as [l0|] eqn:El.
        + destruct (take_fields s t x l0 c El) as (_ & _ & _ & _ & _ & _ & ->). destruct (mem c l0); auto. discriminate.
        + now rewrite take_none. }
    unfold upd. destruct (N.eqb_spec c a) as [->|]; auto. destruct L as (_ & _ & L & _). congruence.
  Qed.

  Lemma stays_or_doomed_step : forall l s c p, ~ moves c l ->
    child_of s c p ->
    child_of (step kill_rule l s) c p \/ doomed (step kill_rule l s c) <> None.
  Proof.
    intros l s c p Hm Hc.
    assert (Hloc : forall a y, children y = children (s a) -> child_of (upd s a y) c p \/ doomed (upd s a y c) <> None).
    { intros a y E. left. now apply child_of_upd. }
    destruct l as [a|c' p'|c' p'|a|a|a|a|a|a|a|a|a|a]; simpl in *; auto.
    - left. apply link_keeps; auto.
    - left. apply unlink_keeps; auto.
    - left. now apply kill_keeps.
    - destruct (_ <? _); auto.
    - destruct (created (s a)); auto. destruct (st (s a)); auto. destruct (apc (s a)); auto.
    - destruct (created (s a)); auto. destruct (apc (s a)); auto. destruct (_ <=? _); auto.
    - destruct (created (s a)); auto. destruct (sg (s a)); auto. destruct (_ <=? _); auto. destruct (apc (s a)); auto.
    - assert (Hterm : forall (P : list titem -> pc) w,
                child_of (let '(s1, w1) := term_step kill_rule s a w in upd s1 a (set_pc (P w1) (s1 a))) c p
                \/ doomed ((let '(s1, w1) := term_step kill_rule s a w in upd s1 a (set_pc (P w1) (s1 a))) c) <> None).
      { intros P w. destruct w as [|[x|x] w]; simpl.
        - left. now apply child_of_upd.
        - left. apply child_of_upd; auto. destruct (kill_rule _); auto. now apply kill_keeps.
        - destruct (do_take s a x) as [s1 l] eqn:Et.
          destruct (take_keeps_or_dooms s a x c p Hc) as [K|K]; rewrite Et in K; simpl in K.
          + left. now apply child_of_upd.
          + right. unfold upd. destruct (N.eqb_spec c a) as [->|]; simpl; congruence. }
      destruct (apc (s a)); auto.
      + destruct w as [|i w]; auto; try apply (Hterm PSigTerm).
      + destruct w as [|i w]; auto; try apply (Hterm PCleanTerm).
    - destruct (created (s a)); auto. destruct (apc (s a)); auto. destruct (_ <=? _); auto.
    - destruct (created (s a)); auto. destruct (apc (s a)); auto.
    - destruct (apc (s a)); auto.
    - destruct (apc (s a)); auto. destruct sup as [q|]; auto.
      left. apply child_of_upd; auto. apply unlink_keeps; auto.
  Qed.

  Lemma stays_or_doomed : forall ls s c p, Forall (fun l => ~ moves c l) ls ->
    child_of s c p \/ doomed (s c) <> None ->
    child_of (exec kill_rule ls s) c p \/ doomed (exec kill_rule ls s c) <> None.
  Proof.
    induction ls as [|l ls IH]; intros s c p F H; simpl; auto.
    inversion F; subst. apply IH; auto. destruct H as [H|H].
    - now apply stays_or_doomed_step.
    - right. now apply doomed_stays.
  Qed.
End Race.

(* a link (explicit, or the one spawn_linked performs) that races with the supervisor's exit:
   it is refused (link_refused), or -- unless the child is explicitly unlinked/relinked or exits by
   itself in between -- once the supervisor's child set is closed the child is among the detached
   ones, and therefore killed (or queued to be killed in the terminate() that detached it) *)
Theorem race_outcome : forall s c p s1 ls,
  reachable rule_fixed s -> do_link s c p = (s1, true) ->
  Forall (fun l => ~ moves c l) ls ->
  let s2 := exec rule_fixed ls s1 in
  children (s2 p) = None ->
  exists t, doomed (s2 c) = Some t /\ (kos (s2 c) \/ In (TKill c) (work s2 t)).
Proof.
  intros s c p s1 ls H E F s2 Hcl.
  assert (R1 : reachable rule_fixed s1).
  { change s1 with (fst (s1, true)). rewrite <- E. apply (reachable_step rule_fixed (LLink c p) s H). }
  assert (R2 : reachable rule_fixed s2) by (apply reachable_exec; auto).
  destruct (stays_or_doomed rule_fixed ls s1 c p F (or_introl (link_accepted s c p s1 E))) as [K|K].
  - destruct K as (l & El & _). fold s2 in El. congruence.
  - fold s2 in K. destruct (doomed (s2 c)) as [t|] eqn:Ed; [|congruence].
    exists t; split; auto. now apply subtree_killed.
Qed.

(* ---------------------------------------------------------------------------------- *)
(* the historical rule (status <= Upgrading) lets in a counterexample: F2 *)

Definition f2_labels : list label :=
  [LCreate 0; LStart 0; LRun 0; LCreate 1; LStart 1; LLink 1 0; LRun 1;   (* supervisor 0, child 1 *)
   LDrain 1;                                                              (* child is Draining *)
   LKill 0; LSignal 0; LTerm 0; LTerm 0; LTerm 0; LTerm 0; LTerm 0;       (* handle_signal: terminate() *)
   LClean 0; LTerm 0; LTerm 0; LTerm 0; LClean 0; LClean 0; LClean 0; LClean 0].

Lemma prefix_rule_counterexample :
  let s := exec rule_prefix f2_labels init in
  st (s 0) = Stopped /\ apc (s 0) = PDone /\ work s 0 = []
  /\ doomed (s 1) = Some 0 /\ st (s 1) = Draining /\ sg (s 1) = SigNone /\ supervisor (s 1) = None
  /\ enabled_internal s 0 = false /\ enabled_internal s 1 = false.
Proof. vm_compute. repeat split; reflexivity. Qed.

Lemma prefix_rule_refutes_subtree_killed :
  ~ (forall s c t, reachable rule_prefix s -> doomed (s c) = Some t -> work s t = [] -> kos (s c)).
Proof.
  intros H. specialize (H (exec rule_prefix f2_labels init) 1 0).
  assert (R : reachable rule_prefix (exec rule_prefix f2_labels init)) by (exists f2_labels; reflexivity).
  specialize (H R). destruct H as [H|H]; try (vm_compute; reflexivity).
  - apply H. vm_compute. reflexivity.
  - vm_compute in H. apply H. reflexivity.
Qed.

(* the same schedule under the repaired rule kills the child *)
Lemma fixed_rule_same_schedule :
  let s := exec rule_fixed f2_labels init in
  doomed (s 1) = Some 0 /\ sg (s 1) = SigPending /\ enabled_internal s 1 = true.
Proof. vm_compute. repeat split; reflexivity. Qed.

(* ---------------------------------------------------------------------------------- *)
(* the static part of the oracle accepts every snapshot of a state satisfying the invariants *)

Lemma nth_error_nseq : forall n k i,
  nth_error (nseq k n) i = if Nat.ltb i n then Some (k + N.of_nat i) else None.
Proof.
  induction n as [|n IH]; intros k i; simpl.
  - destruct i; reflexivity.
  - destruct i as [|i]; simpl.
    + f_equal. lia.
    + rewrite IH. change (Nat.ltb (S i) (S n)) with (Nat.ltb i n).
      destruct (Nat.ltb i n); auto. f_equal. lia.
Qed.

Lemma sget_snap : forall n s a,
  sget (snap n s) a = if Nat.ltb (N.to_nat a) n then Some (snap_of (s a)) else None.
Proof.
  intros n s a. unfold sget, snap. rewrite nth_error_map, nth_error_nseq.
  rewrite N.add_0_l, N2Nat.id. destruct (Nat.ltb (N.to_nat a) n); simpl; auto.
Qed.

Lemma check_actor_ok : forall n s a, InvA s -> check_actor (snap n s) a (snap_of (s a)) = true.
Proof.
  intros n s a H. unfold check_actor, snap_of, s_sup, s_children, s_rank; simpl.
  apply andb_true_iff; split; [apply andb_true_iff; split|].
  - destruct (supervisor (s a)) as [p|] eqn:Es; auto.
    rewrite sget_snap. destruct (Nat.ltb _ n); auto. simpl.
    apply (ia_two _ H) in Es. destruct Es as (l & El & Hin). rewrite El. now apply mem_In.
  - apply forallb_forall. intros c Hc. rewrite sget_snap. destruct (Nat.ltb _ n); auto. simpl.
    apply oeq_true. apply (ia_two _ H). destruct (children (s a)) as [l|] eqn:El; [|destruct Hc].
    exists l; auto.
  - destruct (rank (st (s a)) =? 6) eqn:E; auto. apply N.eqb_eq in E.
    assert (Hs : st (s a) = Stopped) by (apply rank_inj; auto).
    pose proof (ia_pc _ H a) as Hp. unfold pc_ok in Hp.
    destruct (apc (s a)); rewrite Hs in Hp; simpl in Hp; try (exfalso; intuition lia).
    destruct Hp as (_ & _ & -> & ->). reflexivity.
Qed.

Lemma check_actors_ok : forall n s m k, InvA s ->
  check_actors (snap n s) k (map (fun a => snap_of (s a)) (nseq k m)) = true.
Proof.
  intros n s m. induction m as [|m IH]; intros k H; simpl; auto.
  rewrite check_actor_ok; auto. simpl. apply IH; auto.
Qed.

Theorem check_snap_sound : forall r n s, reachable r s -> check_snap (snap n s) = true.
Proof.
  intros r n s H. unfold check_snap. unfold snap at 2. apply check_actors_ok.
  now apply (invA_reachable r).
Qed.

