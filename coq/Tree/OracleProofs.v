(* Soundness of the dynamic part of the C05 oracle (check_pair / check_pairs / the spawn clause of
   check_C05_full) against Tree/Model.v: for windows of labels between two snapshots. *)
From Coq Require Import List NArith Bool Lia PeanoNat Arith.
From RV Require Import Tree.Model Tree.Proofs.
Import ListNotations.
Local Open Scope N_scope.

(* ---------------------------------------------------------------------------------- *)
(* a second ghost invariant: a detached actor's own child set is closed, or its take is still queued *)

Definition doomed_closed (s : state) : Prop :=
  forall c t, doomed (s c) = Some t -> children (s c) = None \/ In (TTake c) (work s t).

Lemma In_items_take : forall c l, In c l -> In (TTake c) (items l).
Proof.
  intros c l H. unfold items. apply in_flat_map. exists c; split; auto. simpl; auto.
Qed.

Section Closed.
  Variable kill_rule : status -> bool.

  Lemma dc_simple : forall s s' g a y,
    doomed_closed s ->
    (forall b, frame_rel (s b) (g b)) -> (forall b, doomed (g b) = doomed (s b)) ->
    lop (g a) y -> (forall i, In i (work_of (apc (g a))) -> In i (work_of (apc y))) ->
    (forall b, s' b = upd g a y b) ->
    doomed_closed s'.
  Proof.
    intros s s' g a y D F Dm L W E c t Hd.
    assert (Hd0 : doomed (s c) = Some t).
    { rewrite E in Hd. unfold upd in Hd. destruct (N.eqb_spec c a) as [->|].
      - destruct L as (_ & _ & L & _). rewrite L, Dm in Hd. auto.
      - now rewrite Dm in Hd. }
    destruct (D _ _ Hd0) as [Hk|Hk].
    - left. rewrite E. unfold upd. destruct (F c) as (_ & _ & _ & _ & Fc & _).
      destruct (N.eqb_spec c a) as [->|]; auto. destruct L as (L & _). rewrite L. auto.
    - right. unfold work in *. rewrite E. unfold upd.
      destruct (F t) as (Ft & _).
      destruct (N.eqb_spec t a) as [->|]; [apply W|]; now rewrite Ft.
  Qed.

  Lemma dc_term_case : forall (P : list titem -> pc) s a i w,
    (forall w0, work_of (P w0) = w0) ->
    doomed_closed s -> apc (s a) = P (i :: w) ->
    doomed_closed (let '(s1, w1) := term_step kill_rule s a (i :: w) in upd s1 a (set_pc (P w1) (s1 a))).
  Proof.
    intros P s a i w HP D Ep.
    assert (Hwa : work s a = i :: w) by (unfold work; now rewrite Ep, HP).
    destruct i as [x|x]; simpl.
    - set (g := if kill_rule (st (s x)) then do_kill s x else s).
      assert (Fg : forall b, frame_rel (s b) (g b)).
      { intros b; unfold g. destruct (kill_rule _); [apply kill_frame|apply frame_refl]. }
      assert (Dg : forall b, doomed (g b) = doomed (s b)).
      { intros b; unfold g. destruct (kill_rule _); auto.
        destruct (kill_fields s x b) as (_ & _ & _ & _ & _ & F & _); auto. }
      intros c t Hd.
      assert (Hd0 : doomed (s c) = Some t).
      { unfold upd in Hd. destruct (N.eqb_spec c a) as [->|]; simpl in Hd; now rewrite Dg in Hd. }
      destruct (D _ _ Hd0) as [Hk|Hk].
      + left. unfold upd. destruct (Fg c) as (_ & _ & _ & _ & Fc & _).
        destruct (N.eqb_spec c a) as [->|]; simpl; auto.
      + right. destruct (N.eqb_spec t a) as [->|Hta].
        * rewrite Hwa in Hk. destruct Hk as [Hk|Hk]; [discriminate|].
          unfold work. rewrite upd_same. simpl. now rewrite HP.
        * rewrite work_upd_other; auto. unfold work in *. destruct (Fg t) as (Ft & _). now rewrite Ft.
    - destruct (do_take s a x) as [g l] eqn:Et.
      destruct (children (s x)) as [l0|] eqn:El.
      + assert (Hl : l = l0 /\ g = fst (do_take s a x)) by (rewrite Et; rewrite take_some with (l:=l0) in Et; auto; inversion Et; auto).
        destruct Hl as [-> Hg].
        assert (TF := fun b => take_fields s a x l0 b El). simpl in TF. rewrite <- Hg in TF.
        assert (Fg : forall b, frame_rel (s b) (g b)) by (intros b; rewrite Hg; apply take_frame).
        intros c t Hd.
        assert (Hdg : doomed (g c) = Some t).
        { unfold upd in Hd. destruct (N.eqb_spec c a) as [->|]; simpl in Hd; auto. }
        destruct (TF c) as (T1 & T2 & T3 & T4 & T5 & T6 & T7).
        rewrite T7 in Hdg. destruct (mem c l0) eqn:Em.
        * inversion Hdg; subst t. apply mem_In in Em.
          right. unfold work. rewrite upd_same. simpl. rewrite HP. apply in_or_app. left. now apply In_items_take.
        * destruct (D _ _ Hdg) as [Hk|Hk].
          -- left. unfold upd. destruct (Fg c) as (_ & _ & _ & _ & Fc & _).
             destruct (N.eqb_spec c a) as [->|]; simpl; auto.
          -- destruct (N.eqb_spec t a) as [->|Hta].
             ++ rewrite Hwa in Hk. destruct Hk as [Hk|Hk].
                ** inversion Hk; subst x. left.
                   unfold upd. destruct (N.eqb_spec c a) as [->|]; simpl; rewrite T5, N.eqb_refl; auto.
                ** right. unfold work. rewrite upd_same. simpl. rewrite HP. apply in_or_app; auto.
             ++ right. rewrite work_upd_other; auto. unfold work in *. destruct (Fg t) as (Ft & _). now rewrite Ft.
      + rewrite take_none in Et; auto. inversion Et; subst g l. simpl.
        intros c t Hd.
        assert (Hd0 : doomed (s c) = Some t).
        { unfold upd in Hd. destruct (N.eqb_spec c a) as [->|]; simpl in Hd; auto. }
        destruct (D _ _ Hd0) as [Hk|Hk].
        * left. unfold upd. destruct (N.eqb_spec c a) as [->|]; simpl; auto.
        * destruct (N.eqb_spec t a) as [->|Hta].
          -- rewrite Hwa in Hk. destruct Hk as [Hk|Hk].
             ++ inversion Hk; subst x. left. unfold upd. destruct (N.eqb_spec c a) as [->|]; simpl; auto.
             ++ right. unfold work. rewrite upd_same. simpl. now rewrite HP.
          -- right. rewrite work_upd_other; auto.
  Qed.

  Theorem doomed_closed_step : forall l s, doomed_closed s -> doomed_closed (step kill_rule l s).
  Proof.
    intros l s D.
    assert (Hloc : forall a y, lop (s a) y ->
              (forall i, In i (work_of (apc (s a))) -> In i (work_of (apc y))) ->
              doomed_closed (upd s a y)).
    { intros a y L W. apply (dc_simple s (upd s a y) s a y); auto. intros; apply frame_refl. }
    destruct l as [a|c p|c p|a|a|a|a|a|a|a|a|a|a]; simpl.
    - apply Hloc; [unfold lop; simpl; repeat split; auto; lia|auto].
    - apply (dc_simple s _ (fst (do_link s c p)) c (fst (do_link s c p) c)); auto.
      + intros b; apply link_frame.
      + intros b. destruct (do_link s c p) as [s' ok] eqn:E; simpl.
        destruct ok; [|now rewrite (link_false _ _ _ _ E)].
        destruct (link_true _ _ _ _ E) as (_ & _ & _ & _ & l & _ & F). destruct (F b) as ((_ & _ & _ & _ & F5) & _); auto.
      + apply lop_refl.
      + intros b; now rewrite upd_id.
    - apply (dc_simple s _ (do_unlink s c p) c (do_unlink s c p c)); auto.
      + intros b; apply unlink_frame.
      + intros b. destruct (oeq (supervisor (s c)) p) eqn:Eo.
        * apply oeq_true in Eo. destruct (unlink_fields s c p b Eo) as ((_ & _ & _ & _ & F5) & _); auto.
        * apply oeq_false in Eo. now rewrite unlink_noop.
      + apply lop_refl.
      + intros b; now rewrite upd_id.
    - apply (dc_simple s _ (do_kill s a) a (do_kill s a a)); auto.
      + intros b; apply kill_frame.
      + intros b. destruct (kill_fields s a b) as (_ & _ & _ & _ & _ & F & _); auto.
      + apply lop_refl.
      + intros b; now rewrite upd_id.
    - destruct (rank (st (s a)) <? 5) eqn:E; auto. apply N.ltb_lt in E.
      apply Hloc; [unfold lop; simpl; repeat split; auto; lia|auto].
    - destruct (created (s a)); auto. destruct (st (s a)) eqn:Es; auto. destruct (apc (s a)) eqn:Ep; auto.
      apply Hloc; [unfold lop; simpl; repeat split; auto; rewrite Es; simpl; lia|simpl; now rewrite Ep].
    - destruct (created (s a)); auto. destruct (apc (s a)) eqn:Ep; auto. destruct (1 <=? _); auto.
      apply Hloc; [unfold lop; simpl; repeat split; auto; rewrite rank_smax; lia|simpl; now rewrite Ep].
    - destruct (created (s a)); auto. destruct (sg (s a)) eqn:Es; auto. destruct (1 <=? _); auto.
      destruct (apc (s a)) eqn:Ep; auto;
        (apply Hloc; [unfold lop; simpl; repeat split; auto; try lia; congruence|simpl; rewrite Ep; simpl; tauto]).
    - destruct (apc (s a)) eqn:Ep; auto.
      + destruct w as [|i w].
        * apply Hloc; [unfold lop; simpl; repeat split; auto; lia|simpl; now rewrite Ep].
        * apply (dc_term_case PSigTerm); auto.
      + destruct w as [|i w].
        * apply Hloc; [unfold lop; simpl; repeat split; auto; lia|simpl; now rewrite Ep].
        * apply (dc_term_case PCleanTerm); auto.
    - destruct (created (s a)); auto. destruct (apc (s a)) eqn:Ep; auto. destruct (2 <=? _); auto.
      apply Hloc; [unfold lop; simpl; repeat split; auto; rewrite rank_smax; lia|simpl; now rewrite Ep].
    - destruct (created (s a)); auto. destruct (apc (s a)) eqn:Ep; auto.
      apply Hloc; [unfold lop; simpl; repeat split; auto; lia|simpl; now rewrite Ep].
    - destruct (apc (s a)) eqn:Ep; auto.
      apply Hloc; [unfold lop; simpl; repeat split; auto; lia|simpl; now rewrite Ep].
    - destruct (apc (s a)) eqn:Ep; auto.
      + apply Hloc; [unfold lop; simpl; repeat split; auto; rewrite rank_smax; lia|simpl; now rewrite Ep].
      + apply Hloc; [unfold lop; simpl; repeat split; auto; lia|simpl; now rewrite Ep].
      + apply Hloc; [unfold lop; simpl; repeat split; auto; lia|simpl; now rewrite Ep].
      + destruct sup as [q|].
        * apply (dc_simple s _ (do_unlink s a q) a (set_pc PPubStopped (do_unlink s a q a))); auto.
          -- intros b; apply unlink_frame.
          -- intros b. destruct (oeq (supervisor (s a)) q) eqn:Eo.
             ++ apply oeq_true in Eo. destruct (unlink_fields s a q b Eo) as ((_ & _ & _ & _ & F5) & _); auto.
             ++ apply oeq_false in Eo. now rewrite unlink_noop.
          -- unfold lop; simpl; repeat split; auto; lia.
          -- destruct (unlink_frame s a q a) as (F1 & _). rewrite F1, Ep. simpl; tauto.
        * apply Hloc; [unfold lop; simpl; repeat split; auto; lia|simpl; now rewrite Ep].
      + apply Hloc; [unfold lop; simpl; repeat split; auto; pose proof (rank_le6 (st (s a))); simpl; lia|simpl; now rewrite Ep].
  Qed.
End Closed.

Lemma doomed_closed_init : doomed_closed init.
Proof. intros c t. unfold init; simpl. discriminate. Qed.

Lemma doomed_closed_reachable : forall r s, reachable r s -> doomed_closed s.
Proof.
  intros r s [ls ->]. unfold exec.
  assert (G : forall ls s0, doomed_closed s0 -> doomed_closed (fold_left (fun s l => step r l s) ls s0)).
  { induction ls0 as [|l ls0 IH]; intros s0 D; simpl; auto. apply IH. now apply doomed_closed_step. }
  apply G, doomed_closed_init.
Qed.

(* ---------------------------------------------------------------------------------- *)
(* what can become of an actor that has a supervisor, along a window without explicit unlink *)

Definition no_unlink (l : label) : Prop := match l with LUnlink _ _ => False | _ => True end.

Definition gone (x : actor) : Prop := 5 <= rank (st x) /\ children x = None.

Definition K (s : state) (c : aid) : Prop :=
  (exists q, supervisor (s c) = Some q) \/ doomed (s c) <> None \/ gone (s c).

Lemma gone_step : forall r l s c, gone (s c) -> gone (step r l s c).
Proof.
  intros r l s c [H1 H2]. split.
  - pose proof (rank_mono r l s c). lia.
  - now apply closed_stays.
Qed.

Lemma K_step : forall r l s c, InvA s -> no_unlink l -> K s c -> K (step r l s) c.
Proof.
  intros r l s c I Hl [[q Hq]|[Hd|Hg]].
  2:{ right; left. now apply doomed_stays. }
  2:{ right; right. now apply gone_step. }
  assert (Hc : child_of s c q) by (apply (ia_two _ I); auto).
  pose proof (invA_step r l s I) as I'.
  (* labels by which c itself moves *)
  destruct l as [a|c' p'|c' p'|a|a|a|a|a|a|a|a|a|a];
    try (match goal with |- K (step _ ?lab _) _ =>
           destruct (stays_or_doomed_step r lab s c q (fun H => H) Hc) as [H|H];
           [left; exists q; apply (ia_two _ I'); exact H|right; left; exact H] end).
  - (* LLink *)
    destruct (N.eqb_spec c' c) as [->|Hcc].
    + simpl. destruct (do_link s c p') as [s' ok] eqn:E. simpl. destruct ok.
      * destruct (link_true _ _ _ _ E) as (_ & _ & _ & _ & l0 & _ & F). destruct (F c) as (_ & _ & Hs).
        rewrite N.eqb_refl in Hs. left; eauto.
      * rewrite (link_false _ _ _ _ E). left; eauto.
    + assert (Hm : ~ moves c (LLink c' p')) by (simpl; auto).
      destruct (stays_or_doomed_step r _ s c q Hm Hc) as [H|H];
        [left; exists q; apply (ia_two _ I'); exact H|right; left; exact H].
  - destruct Hl.
  - (* LClean *)
    destruct (N.eqb_spec a c) as [->|Hac].
    + pose proof (ia_pc _ I c) as Hp. unfold pc_ok in Hp.
      destruct (apc (s c)) as [| | | | | | |[q0|]| |] eqn:Ep;
        try (left; exists q; simpl; rewrite Ep; rewrite ?upd_same; simpl; exact Hq).
      (* PUnlink (Some q0): c is already Stopping with a closed child set *)
      right; right. apply gone_step. destruct Hp as (P1 & _ & P3 & _). split; auto. lia.
    + assert (Hm : ~ moves c (LClean a)) by (simpl; auto).
      destruct (stays_or_doomed_step r _ s c q Hm Hc) as [H|H];
        [left; exists q; apply (ia_two _ I'); exact H|right; left; exact H].
Qed.

Lemma K_exec : forall r ls s c, InvA s -> Forall no_unlink ls -> K s c -> K (exec r ls s) c.
Proof.
  induction ls as [|l ls IH]; intros s c I F H; simpl; auto.
  inversion F; subst. apply IH; auto.
  - now apply invA_step.
  - now apply K_step.
Qed.

(* quiescent states: a detached or self-exited actor is Stopping/Stopped with a closed child set *)
Lemma quiescent_work_empty : forall s t, InvA s -> quiescent s -> work s t = [].
Proof.
  intros s t HA Q. pose proof (Q t) as Qt. unfold enabled_internal in Qt.
  pose proof (ia_pc _ HA t) as Pt. unfold pc_ok in Pt. unfold work.
  destruct (apc (s t)); simpl in *; auto.
  - destruct Pt as (_ & Pt); rewrite Pt in Qt; discriminate.
  - destruct Pt as (_ & Pt & _); rewrite Pt in Qt; discriminate.
Qed.

Lemma K_quiescent : forall s c, reachable rule_fixed s -> quiescent s -> K s c ->
  (exists q, supervisor (s c) = Some q) \/ gone (s c).
Proof.
  intros s c R Q [H|[H|H]]; auto. right.
  destruct (doomed (s c)) as [t|] eqn:Ed; [|congruence].
  pose proof (invA_reachable _ _ R) as I.
  split.
  - destruct (subtree_stops s c t R Q Ed) as [E|[E _]].
    + rewrite E; simpl; lia.
    + pose proof (ia_pc _ I c) as Hp. unfold pc_ok in Hp. rewrite E in Hp. lia.
  - destruct (doomed_closed_reachable _ _ R c t Ed) as [E|E]; auto.
    rewrite (quiescent_work_empty s t I Q) in E. destruct E.
Qed.

(* the key lemma: x's child set was open before the window and is closed after it; every former
   child is then under another supervisor, or Stopping/Stopped with a closed child set *)
Lemma closed_parent : forall ls s x l c,
  reachable rule_fixed s -> Forall no_unlink ls ->
  let s' := exec rule_fixed ls s in
  quiescent s' ->
  children (s x) = Some l -> In c l -> children (s' x) = None ->
  (exists q, supervisor (s' c) = Some q /\ q <> x) \/ gone (s' c).
Proof.
  intros ls s x l c R F s' Q Hl Hin Hcl.
  pose proof (invA_reachable _ _ R) as I.
  assert (R' : reachable rule_fixed s') by (apply reachable_exec; auto).
  assert (Hs : supervisor (s c) = Some x) by (apply (ia_two _ I); exists l; auto).
  assert (HK : K s' c) by (apply K_exec; auto; left; eauto).
  destruct (K_quiescent s' c R' Q HK) as [[q Hq]|Hg]; auto.
  left. exists q; split; auto. intros ->.
  pose proof (invA_reachable _ _ R') as I'.
  apply (ia_two _ I') in Hq. destruct Hq as (l' & E & _). congruence.
Qed.

(* no adoption across a whole window *)
Lemma no_adopt_exec : forall r ls s c p,
  4 <= rank (st (s p)) -> child_of (exec r ls s) c p -> child_of s c p.
Proof.
  induction ls as [|l ls IH]; intros s c p H Hc; simpl in *; auto.
  apply (no_adoption_parent r l s c p); auto.
  apply IH; auto. pose proof (rank_mono r l s p). lia.
Qed.

(* ---------------------------------------------------------------------------------- *)
(* snapshots *)

Definition bounded (n : nat) (s : state) : Prop :=
  forall a, created (s a) = true -> (N.to_nat a < n)%nat.

Definition kids (x : actor) : list aid := match children x with Some l => l | None => [] end.

Lemma sget_in : forall n s a, (N.to_nat a < n)%nat -> sget (snap n s) a = Some (snap_of (s a)).
Proof. intros n s a H. rewrite sget_snap. apply Nat.ltb_lt in H. now rewrite H. Qed.

Lemma rank_of_in : forall n s a, (N.to_nat a < n)%nat -> rank_of (snap n s) a = rank (st (s a)).
Proof. intros n s a H. unfold rank_of. now rewrite sget_in. Qed.

Lemma sup_of_in : forall n s a, (N.to_nat a < n)%nat -> sup_of (snap n s) a = supervisor (s a).
Proof. intros n s a H. unfold sup_of. now rewrite sget_in. Qed.

Lemma snap_length : forall n s, length (snap n s) = n.
Proof.
  intros n s. unfold snap. rewrite map_length.
  assert (G : forall m k, length (nseq k m) = m) by (induction m; intros; simpl; auto).
  apply G.
Qed.

Lemma In_nseq : forall m k a, In a (nseq k m) -> (N.to_nat k <= N.to_nat a < N.to_nat k + m)%nat.
Proof.
  induction m as [|m IH]; intros k a H; simpl in H; [destruct H|].
  destruct H as [->|H]; [lia|]. apply IH in H. lia.
Qed.

Lemma created_mono : forall r l s b, created (s b) = true -> created (step r l s b) = true.
Proof.
  intros r l s b H. destruct (step_decomp r l s) as (g & a & y & G & L & E). rewrite E.
  destruct (gop_frame _ _ G b) as (_ & _ & Fc & _). unfold upd.
  destruct (N.eqb_spec b a) as [->|]; auto. destruct L as (_ & _ & _ & _ & L & _). auto.
Qed.

Lemma created_mono_exec : forall r ls s b, created (s b) = true -> created (exec r ls s b) = true.
Proof.
  induction ls as [|l ls IH]; intros s b H; simpl; auto. apply IH. now apply created_mono.
Qed.

Lemma kids_child : forall s c a, In c (kids (s a)) <-> child_of s c a.
Proof.
  intros s c a. unfold kids, child_of. destruct (children (s a)) as [l|]; split.
  - intros H; eauto.
  - intros (l' & E & H). inversion E; subst; auto.
  - intros [].
  - intros (l' & E & _). discriminate.
Qed.

Section Window.
  Variables (n : nat) (s : state) (ls : list label).
  Let s' := exec rule_fixed ls s.
  Hypothesis R : reachable rule_fixed s.
  Hypothesis B : bounded n s'.

  Let pre := snap n s.
  Let post := snap n s'.

  Lemma R' : reachable rule_fixed s'.
  Proof. apply reachable_exec; auto. Qed.

  Lemma child_in_range : forall c a, child_of s c a -> (N.to_nat c < n)%nat.
  Proof.
    intros c a H. apply B. apply created_mono_exec.
    pose proof (invA_reachable _ _ R) as I. apply (ia_two _ I) in H. now destruct (ia_cr _ I _ _ H).
  Qed.

  (* clause (1): no adoption *)
  Lemma window_no_adoption : forall a, (N.to_nat a < n)%nat -> 4 <= rank (st (s a)) ->
    forallb (fun c => mem c (kids (s a))) (kids (s' a)) = true.
  Proof.
    intros a Ha H. apply forallb_forall. intros c Hc. apply mem_In. apply kids_child.
    apply (no_adopt_exec rule_fixed ls); auto. now apply kids_child.
  Qed.

  (* clause (2) *)
  Hypothesis NU : Forall no_unlink ls.
  Hypothesis Q : quiescent s'.

  Lemma descendants_gone : forall k a, (N.to_nat a < n)%nat -> children (s' a) = None ->
    forall c, In c (descendants k pre post a) -> (N.to_nat c < n)%nat /\ 5 <= rank (st (s' c)).
  Proof.
    induction k as [|k IH]; intros a Ha Hcl c Hin; simpl in Hin; [destruct Hin|].
    unfold pre in Hin at 1. rewrite sget_in in Hin; auto.
    assert (Hstep : forall c0, In c0 (filter (fun c => negb (moved_away pre post c)) (s_children (snap_of (s a)))) ->
              (N.to_nat c0 < n)%nat /\ gone (s' c0)).
    { intros c0 H0. apply filter_In in H0. destruct H0 as [Hk Hm].
      change (s_children (snap_of (s a))) with (kids (s a)) in Hk.
      assert (Hc0 : child_of s c0 a) by (now apply kids_child).
      pose proof (child_in_range _ _ Hc0) as Hr. split; auto.
      destruct Hc0 as (l & El & Hl).
      destruct (closed_parent ls s a l c0 R NU Q El Hl Hcl) as [(q & Hq & Hne)|Hg]; auto.
      exfalso. apply negb_true_iff in Hm. unfold moved_away in Hm.
      unfold pre, post in Hm. rewrite (rank_of_in n s' c0 Hr), (sup_of_in n s' c0 Hr), (sup_of_in n s c0 Hr) in Hm.
      assert (Hs : supervisor (s c0) = Some a).
      { apply (ia_two _ (invA_reachable _ _ R)). exists l; auto. }
      fold s' in Hq. rewrite Hq, Hs in Hm. simpl in Hm.
      assert (E : (a =? q) = false) by (apply N.eqb_neq; auto).
      rewrite E in Hm. simpl in Hm. rewrite andb_true_r in Hm. apply negb_false_iff in Hm.
      apply N.eqb_eq in Hm.
      assert (Hst : st (s' c0) = Stopped) by (apply rank_inj; auto).
      destruct (stopped_is_bare _ _ c0 R' Hst) as [Hb _]. congruence. }
    apply in_app_or in Hin. destruct Hin as [Hin|Hin].
    - destruct (Hstep c Hin) as [H1 [H2 _]]; auto.
    - apply in_flat_map in Hin. destruct Hin as (c0 & H0 & Hin).
      destruct (Hstep c0 H0) as [H1 [_ H3]]. apply (IH c0); auto.
  Qed.

  Lemma window_subtree : forall a, (N.to_nat a < n)%nat -> st (s' a) = Stopped ->
    forallb (fun c => 5 <=? rank_of post c) (descendants (length pre) pre post a) = true.
  Proof.
    intros a Ha Hst. apply forallb_forall. intros c Hc.
    destruct (stopped_is_bare _ _ a R' Hst) as [_ Hcl].
    destruct (descendants_gone _ a Ha Hcl c Hc) as [Hr Hk].
    unfold post. rewrite rank_of_in; auto. apply N.leb_le; auto.
  Qed.
End Window.

(* one window of the oracle's dynamic part *)
Theorem check_pair_sound : forall n s ls,
  let s' := exec rule_fixed ls s in
  reachable rule_fixed s -> bounded n s' ->
  (Forall no_unlink ls /\ quiescent s') \/ (forall a, st (s' a) = st (s a)) ->
  check_pair (snap n s) (snap n s') = true.
Proof.
  intros n s ls s' R B W. unfold check_pair. apply forallb_forall. intros a Ha.
  rewrite snap_length in Ha. apply In_nseq in Ha. simpl in Ha.
  assert (Hr : (N.to_nat a < n)%nat) by lia.
  unfold check_pair_actor. rewrite !sget_in; auto.
  unfold s_rank, s_children; simpl.
  apply andb_true_iff; split.
  - destruct (4 <=? rank (st (s a))) eqn:E; auto. apply N.leb_le in E.
    apply (window_no_adoption n s ls); auto.
  - destruct (rank (st (s' a)) =? 6) eqn:E6; simpl; auto.
    destruct (rank (st (s a)) =? 6) eqn:E6'; simpl; auto.
    apply N.eqb_eq in E6.
    destruct W as [[NU Q]|Same].
    + apply (window_subtree n s ls); auto. apply rank_inj; auto.
    + rewrite Same in E6. apply N.eqb_neq in E6'. congruence.
Qed.

(* ---------------------------------------------------------------------------------- *)
(* a whole observation sequence *)

Fixpoint run_windows (s : state) (ws : list (list label)) {struct ws} : list state :=
  s :: match ws with
       | [] => []
       | w :: t => run_windows (exec rule_fixed w s) t
       end.

Definition window_ok (n : nat) (s : state) (w : list label) : Prop :=
  bounded n (exec rule_fixed w s)
  /\ ((Forall no_unlink w /\ quiescent (exec rule_fixed w s))
      \/ (forall a, st (exec rule_fixed w s a) = st (s a))).

Fixpoint windows_ok (n : nat) (s : state) (ws : list (list label)) {struct ws} : Prop :=
  match ws with
  | [] => True
  | w :: t => window_ok n s w /\ windows_ok n (exec rule_fixed w s) t
  end.

Theorem check_C05_sound : forall n ws s,
  reachable rule_fixed s -> windows_ok n s ws ->
  check_C05 (map (snap n) (run_windows s ws)) = true.
Proof.
  intros n ws. unfold check_C05.
  induction ws as [|w t IH]; intros s R W.
  - simpl. rewrite (check_snap_sound rule_fixed n s R). reflexivity.
  - destruct W as [[B C] W].
    assert (R1 : reachable rule_fixed (exec rule_fixed w s)) by (apply reachable_exec; auto).
    specialize (IH _ R1 W). apply andb_true_iff in IH. destruct IH as [IH1 IH2].
    change (run_windows s (w :: t)) with (s :: run_windows (exec rule_fixed w s) t).
    destruct t as [|w2 t2].
    + simpl in *. rewrite (check_snap_sound rule_fixed n s R), IH1.
      rewrite (check_pair_sound n s w R B C). reflexivity.
    + change (run_windows (exec rule_fixed w s) (w2 :: t2))
        with (exec rule_fixed w s :: run_windows (exec rule_fixed w2 (exec rule_fixed w s)) t2) in *.
      simpl map in *. simpl forallb in *. simpl check_pairs in *.
      rewrite (check_snap_sound rule_fixed n s R).
      rewrite (check_pair_sound n s w R B C). simpl. rewrite IH1. simpl. exact IH2.
Qed.

(* ---------------------------------------------------------------------------------- *)
(* the spawn clause: after an accepted link of c under p, along any window without explicit unlink
   and without another link of c, at quiescence c still names p or is Stopping/Stopped *)

Definition no_move (c : aid) (l : label) : Prop :=
  match l with LUnlink _ _ => False | LLink c' _ => c' <> c | _ => True end.

Lemma K_same_step : forall r l s c q, InvA s -> no_move c l ->
  supervisor (s c) = Some q ->
  supervisor (step r l s c) = Some q \/ doomed (step r l s c) <> None \/ gone (step r l s c).
Proof.
  intros r l s c q I Hl Hq.
  assert (Hc : child_of s c q) by (apply (ia_two _ I); auto).
  pose proof (invA_step r l s I) as I'.
  destruct l as [a|c' p'|c' p'|a|a|a|a|a|a|a|a|a|a];
    try (match goal with |- supervisor (step _ ?lab _ _) = _ \/ _ =>
           destruct (stays_or_doomed_step r lab s c q (fun H => H) Hc) as [H|H];
           [left; apply (ia_two _ I'); exact H|right; left; exact H] end).
  - simpl in Hl.
    assert (Hm : ~ moves c (LLink c' p')) by (simpl; auto).
    destruct (stays_or_doomed_step r _ s c q Hm Hc) as [H|H];
      [left; apply (ia_two _ I'); exact H|right; left; exact H].
  - destruct Hl.
  - destruct (N.eqb_spec a c) as [->|Hac].
    + pose proof (ia_pc _ I c) as Hp. unfold pc_ok in Hp.
      destruct (apc (s c)) as [| | | | | | |[q0|]| |] eqn:Ep;
        try (left; simpl; rewrite Ep; rewrite ?upd_same; simpl; exact Hq).
      right; right. apply gone_step. destruct Hp as (P1 & _ & P3 & _). split; auto. lia.
    + assert (Hm : ~ moves c (LClean a)) by (simpl; auto).
      destruct (stays_or_doomed_step r _ s c q Hm Hc) as [H|H];
        [left; apply (ia_two _ I'); exact H|right; left; exact H].
Qed.

Lemma K_same_exec : forall r ls s c q, InvA s -> Forall (no_move c) ls ->
  supervisor (s c) = Some q \/ doomed (s c) <> None \/ gone (s c) ->
  let s' := exec r ls s in
  supervisor (s' c) = Some q \/ doomed (s' c) <> None \/ gone (s' c).
Proof.
  induction ls as [|l ls IH]; intros s c q I F H; simpl; auto.
  inversion F; subst. apply IH; auto.
  - now apply invA_step.
  - destruct H as [H|[H|H]].
    + now apply K_same_step.
    + right; left. now apply doomed_stays.
    + right; right. now apply gone_step.
Qed.

Theorem spawn_clause_sound : forall n s c p s1 ls,
  reachable rule_fixed s -> do_link s c p = (s1, true) ->
  Forall (no_move c) ls ->
  let s2 := exec rule_fixed ls s1 in
  quiescent s2 -> bounded n s2 ->
  oeq (sup_of (snap n s2) c) p || (5 <=? rank_of (snap n s2) c) = true.
Proof.
  intros n s c p s1 ls R E F s2 Q B.
  assert (R1 : reachable rule_fixed s1).
  { change s1 with (fst (s1, true)). rewrite <- E. apply (reachable_step rule_fixed (LLink c p) s R). }
  assert (R2 : reachable rule_fixed s2) by (apply reachable_exec; auto).
  destruct (link_true _ _ _ _ E) as (Cc & _ & _ & _ & l & _ & Fl).
  assert (Hs1 : supervisor (s1 c) = Some p).
  { destruct (Fl c) as (_ & _ & Hs). now rewrite N.eqb_refl in Hs. }
  assert (Hcr : created (s1 c) = true).
  { destruct (Fl c) as ((Hc1 & _) & _). congruence. }
  assert (Hr : (N.to_nat c < n)%nat) by (apply B; apply created_mono_exec; auto).
  rewrite sup_of_in, rank_of_in; auto.
  destruct (K_same_exec rule_fixed ls s1 c p (invA_reachable _ _ R1) F (or_introl Hs1)) as [H|H].
  - fold s2 in H. rewrite H. simpl. now rewrite N.eqb_refl.
  - fold s2 in H. assert (HK : K s2 c) by (right; exact H).
    destruct (K_quiescent s2 c R2 Q HK) as [[q Hq]|[Hg _]].
    + (* it has a supervisor: only possible if it is p (a doomed or gone actor keeps none) *)
      destruct H as [H|[Hg _]].
      * destruct (doomed (s2 c)) as [t|] eqn:Ed; [|congruence].
        destruct (subtree_stops s2 c t R2 Q Ed) as [Es|[Ep _]].
        -- rewrite Es. simpl. apply orb_true_r.
        -- pose proof (ia_pc _ (invA_reachable _ _ R2) c) as Hp. unfold pc_ok in Hp. rewrite Ep in Hp.
           destruct Hp as (P1 & _). rewrite P1. simpl. apply orb_true_r.
      * apply N.leb_le in Hg. rewrite Hg. apply orb_true_r.
    + apply N.leb_le in Hg. rewrite Hg. apply orb_true_r.
Qed.

(* ---------------------------------------------------------------------------------- *)
(* the side conditions are needed: witnesses *)

Definition w_setup : list label :=
  [LCreate 0; LStart 0; LRun 0; LCreate 1; LStart 1; LLink 1 0; LRun 1].
Definition w_exit0 : list label :=
  [LKill 0; LSignal 0; LTerm 0; LTerm 0; LTerm 0; LTerm 0; LTerm 0;
   LClean 0; LTerm 0; LTerm 0; LTerm 0; LClean 0; LClean 0; LClean 0; LClean 0].

(* (a) the later snapshot is not quiescent: the supervisor is Stopped, the child's Kill is pending *)
Lemma check_pair_needs_quiescence :
  let s := exec rule_fixed w_setup init in
  check_pair (snap 2 s) (snap 2 (exec rule_fixed w_exit0 s)) = false
  /\ enabled_internal (exec rule_fixed w_exit0 s) 1 = true.
Proof. vm_compute. split; reflexivity. Qed.

(* (b) an explicit unlink in the same window as the exit: the former child legitimately survives *)
Lemma check_pair_needs_no_unlink :
  let s := exec rule_fixed w_setup init in
  let s' := exec rule_fixed (LUnlink 1 0 :: w_exit0) s in
  check_pair (snap 2 s) (snap 2 s') = false
  /\ enabled_internal s' 0 = false /\ enabled_internal s' 1 = false.
Proof. vm_compute. repeat split; reflexivity. Qed.

Theorem check_pair_unconditional_refuted :
  ~ (forall n s ls, reachable rule_fixed s ->
       check_pair (snap n s) (snap n (exec rule_fixed ls s)) = true).
Proof.
  intros H. specialize (H 2%nat (exec rule_fixed w_setup init) w_exit0).
  assert (R : reachable rule_fixed (exec rule_fixed w_setup init)) by (exists w_setup; reflexivity).
  specialize (H R). pose proof check_pair_needs_quiescence as E. cbv zeta in E. destruct E as [E _].
  rewrite H in E. discriminate.
Qed.
