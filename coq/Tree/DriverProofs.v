(* The scenario driver of Tree/Model.v is a scheduler over the core labels. *)
From Coq Require Import List NArith Bool Lia.
From RV Require Import Tree.Model Tree.Proofs.
Import ListNotations.
Local Open Scope N_scope.

(* ---------------------------------------------------------------------------------- *)
(* the driver is a scheduler: the core state of every driver run is reachable *)

Section DriverReach.
  Local Arguments step : simpl never.
  Variable r : status -> bool.

  Lemma run_own_reach : forall fuel a s, reachable r s -> reachable r (run_own r fuel a s).
  Proof.
    induction fuel as [|k IH]; intros a s H; simpl; auto.
    destruct (next_label s a) as [l|]; auto.
    destruct l; auto; apply IH; now apply reachable_step.
  Qed.

  Local Arguments run_own : simpl never.
  Local Opaque own_fuel.

  Lemma abrupt_reach : forall a d res, reachable r (core d) -> reachable r (core (abrupt r a d res)).
  Proof.
    intros a d res H. unfold abrupt; simpl. apply run_own_reach. repeat apply reachable_step. auto.
  Qed.

  Local Arguments abrupt : simpl never.

  Ltac rs := repeat first [assumption | apply run_own_reach | apply reachable_step | apply abrupt_reach].

  Lemma advance_reach : forall a d, reachable r (core d) -> reachable r (core (snd (advance r a d))).
  Proof.
    intros a d H. unfold advance.
    destruct (alive_phase (phs (bk d a))); simpl; auto.
    destruct (abort_req (bk d a)); simpl; [rs|].
    destruct (phs (bk d a)); simpl; auto;
      try (destruct (sig_visible _); simpl; [rs|]); auto.
    - destruct (st (core d a)); simpl; rs.
    - destruct (g_pre _); simpl; auto. destruct (sup_arg _) as [p|]; simpl; auto.
      destruct (do_link (core d) a p) as [s1 ok]. destruct ok; simpl; rs.
    - destruct (g_post _); simpl; auto. rs.
    - destruct (stop_req _); simpl; [rs|].
      destruct (supq _); simpl; auto.
      destruct (queue _) as [|m q]; simpl; auto.
      destruct m; simpl; auto; rs.
    - destruct (g_h _); simpl; auto.
    - destruct (g_ps _); simpl; auto. rs.
  Qed.

  Lemma sweep_reach : forall l d, reachable r (core d) -> reachable r (core (snd (sweep r l d))).
  Proof.
    induction l as [|a l IH]; intros d H; simpl; auto.
    pose proof (advance_reach a d H) as H1. destruct (advance r a d) as [p1 d1]. simpl in H1.
    pose proof (IH d1 H1) as H2. destruct (sweep r l d1) as [p2 d2]. simpl in *. auto.
  Qed.

  Lemma settle_reach : forall fuel n d, reachable r (core d) -> reachable r (core (settle r fuel n d)).
  Proof.
    induction fuel as [|k IH]; intros n d H; simpl; auto.
    pose proof (sweep_reach (nseq 0 n) d H) as H1. destruct (sweep r (nseq 0 n) d) as [p d1]. simpl in H1.
    destruct p; auto.
  Qed.

  Local Arguments settle : simpl never.

  Lemma fold_stop_reach : forall l d, reachable r (core d) -> reachable r (core (fold_left d_stop l d)).
  Proof.
    induction l as [|a l IH]; intros d H; simpl; auto. apply IH. unfold d_stop.
    destruct (alive_phase _); simpl; auto.
  Qed.

  Lemma fold_drain_reach : forall l d, reachable r (core d) -> reachable r (core (fold_left (d_drain r) l d)).
  Proof.
    induction l as [|a l IH]; intros d H; simpl; auto. apply IH. unfold d_drain.
    destruct (alive_phase _); simpl; auto. now apply reachable_step.
  Qed.

  Lemma dstep_reach : forall o d, reachable r (core d) -> reachable r (core (dstep r o d)).
  Proof.
    intros o d H. destruct o; simpl; auto.
    - destruct (phs _); simpl; auto. now apply reachable_step.
    - destruct (_ && _); simpl; auto.
    - destruct (alive_phase _); simpl; auto.
    - destruct (alive_phase _); simpl; auto. now apply reachable_step.
    - destruct (alive_phase _); simpl; auto. now apply reachable_step.
    - destruct (alive_phase _); simpl; auto.
    - now apply fold_stop_reach.
    - now apply fold_drain_reach.
    - destruct (phs _); simpl; auto. rs.
    - now apply reachable_step.
    - now apply reachable_step.
    - now apply settle_reach.
  Qed.

  Theorem drun_reachable : forall ops, reachable r (core (drun r ops)).
  Proof.
    intros ops. unfold drun.
    assert (G : forall ops d, reachable r (core d) -> reachable r (core (fold_left (fun d o => dstep r o d) ops d))).
    { induction ops0 as [|o ops0 IH]; intros d H; simpl; auto. apply IH. now apply dstep_reach. }
    apply G. simpl. apply reachable_init.
  Qed.
End DriverReach.
