(* Micro-step model of ractor/src/pg.rs: every public function is split into the lock
   sections of the code; any number of threads run calls concurrently with actor exits;
   a schedule is an arbitrary list of labels.  Definitions only; proofs: Pg/ConcProofs.v.

   Granularity (one atomic step each):
   * a step that needs the DashMap entry of key k is enabled only if no thread holds k
     (`c_held k = None`); join_scoped and leave_scoped hold the entry across several steps
     (their per-actor loops), exactly as the code holds `entry`/`Occupied` guards;
   * a relations-mutex section (lock; read status; update; unlock) is one step: it contains
     a single read of the shared status word, no blocking call, and everything else it
     touches is protected by the entry the thread holds (Lipton reduction; trusted);
   * `get_or_create_actor_relations` + the following locked section are merged (the
     reverse index is modelled without Arc identity: a detached Arc is "no entry");
   * every single-entry section of monitor*, demonitor*, demonitor_all, leave_all is one step;
   * the exit of actor a is a per-actor machine (at most one thread runs the clean-up
     block of set_status: the fetch_max on the status word lets in only the first).
   Notifications are not part of this model (they are in Pg/Model.v at the linearization
   point of the locked section). *)
From Coq Require Import List NArith Bool.
From RV Require Import Pg.Model.
Import ListNotations.
Local Open Scope N_scope.

Inductive pc :=
(* join_scoped *)
| JF (k : key) (todo kept : list N)                    (* unlocked status filter, one read per step *)
| JAcq (k : key) (kept : list N)                       (* map.entry(key).or_default() *)
| JL (k : key) (kept todo seen acc stopped : list N)   (* holding k: per distinct actor, locked re-check *)
| JCommit (k : key) (kept acc stopped : list N)        (* members.insert, index, release *)
| JS (k : key) (joined lis stopped : list N)           (* remove_empty_actor_relations for rejected actors;
                                                          lis = the group's listeners cloned inside the entry section *)
| JEmpty (k : key)                                     (* joined = []: drop the entry if it is empty *)
(* leave_scoped *)
| LAcq (k : key) (acts : list N)
| LL (k : key) (acts todo : list N)                    (* holding k; [] = final section + release *)
(* monitor (default scope) *)
| M0 (g a : N) | M1 (g a : N) | M3 (g a : N) | M4 (g a : N) | M5 (a : N)
(* monitor_scope *)
| S0 (s a : N) | S1 (s a : N) | S3 (s a : N) | S4 (s a : N)
(* demonitor / demonitor_scope: the relations handle is read before the entry is taken *)
| D0 (g a : N) | D1 (g a : N) (had : bool)
| DS0 (s a : N) | DS1 (s a : N) (had : bool)
(* notifications, sent after the entry was released *)
| JN (k : key) (joined lis : list N)                   (* to the cloned group listeners *)
| JW1 (k : key) (joined : list N)                      (* read + notify the scope's world listeners *)
| JW2 (k : key) (joined : list N)                      (* read + notify the all-scopes listeners *)
| LN (k : key) (acts lis : list N) | LW1 (k : key) (acts : list N) | LW2 (k : key) (acts : list N)
| Done.

(* exit machine of one actor: set_status(Stopping) = publish; demonitor_all; leave_all *)
Inductive xpc :=
| XAlive
| XPub                                        (* status published, clean-up not started *)
| XDg (gmons : list key) (wmons : list N)     (* demonitor_all: group entries still to visit *)
| XDw (wmons : list N)                        (* demonitor_all: world entries still to visit *)
| XL0                                         (* leave_all not started *)
| XL (todo : list key) (evs : list (key * list N))  (* leave_all: memberships taken, entries to visit;
                                                       evs = removal_events: (key, cloned listeners) *)
| XRm (evs : list (key * list N))             (* remove_empty_actor_relations *)
| XN (evs : list (key * list N))              (* per removal event: notify the cloned group listeners *)
| XNW1 (k : key) (rest : list (key * list N)) (* read + notify the scope's world listeners *)
| XNW2 (k : key) (rest : list (key * list N)) (* read + notify the all-scopes listeners *)
| XDone.                                      (* clean-up finished: wait() may return after this *)

Record cstate := mkC {
  c_pg : pg;
  c_held : key -> option nat;
  c_thr : list pc;
  c_x : N -> xpc }.

Definition set_pg (c : cstate) (p : pg) : cstate := mkC p (c_held c) (c_thr c) (c_x c).
Definition set_held (c : cstate) (k : key) (v : option nat) : cstate :=
  mkC (c_pg c) (kupd (c_held c) k v) (c_thr c) (c_x c).

Definition free (c : cstate) (k : key) : bool := match c_held c k with None => true | Some _ => false end.

(* pg updates *)
Definition pg_map (p : pg) (m : key -> option gstate) : pg :=
  mkPg m (p_mkeys p) (p_index p) (p_world p) (p_rels p) (p_dead p).
Definition pg_rels (p : pg) (r : N -> option rel) : pg :=
  mkPg (p_map p) (p_mkeys p) (p_index p) (p_world p) r (p_dead p).
Definition pg_world (p : pg) (w : N -> option (list N)) : pg :=
  mkPg (p_map p) (p_mkeys p) (p_index p) w (p_rels p) (p_dead p).
Definition pg_index (p : pg) (i : N -> option (list N)) : pg :=
  mkPg (p_map p) (p_mkeys p) i (p_world p) (p_rels p) (p_dead p).
Definition pg_create (p : pg) (k : key) : pg :=          (* entry(k).or_default() *)
  mkPg (kupd (p_map p) k (Some (gs_of p k))) (k :: p_mkeys p) (p_index p) (p_world p) (p_rels p) (p_dead p).
Definition pg_setdead (p : pg) (a : N) : pg :=
  mkPg (p_map p) (p_mkeys p) (p_index p) (p_world p) (p_rels p) (nupd (p_dead p) a true).

Definition is_some {A} (o : option A) : bool := match o with Some _ => true | None => false end.

(* one step of thread t at pc p; a blocked thread stutters *)
Definition tstep (t : nat) (p : pc) (c : cstate) : pc * cstate :=
  let g := c_pg c in
  match p with
  | JF k [] kept => if null kept then (Done, c) else (JAcq k kept, c)
  | JF k (a :: todo) kept => (JF k todo (if p_dead g a then kept else kept ++ [a]), c)
  | JAcq k kept =>
    if free c k then (JL k kept kept [] [] [], set_held (set_pg c (pg_create g k)) k (Some t)) else (p, c)
  | JL k kept [] seen acc stopped => (JCommit k kept acc stopped, c)
  | JL k kept (a :: todo) seen acc stopped =>
    if nmem a seen then (JL k kept todo seen acc stopped, c) else
    let rs := rels_create (p_rels g) a in
    if negb (p_dead g a)
    then (JL k kept todo (a :: seen) (a :: acc) stopped,
          set_pg c (pg_rels g (nupd rs a (Some (rel_add_mem k (rel_get rs a))))))
    else (JL k kept todo (a :: seen) acc (if rel_is_empty (rel_get rs a) then a :: stopped else stopped),
          set_pg c (pg_rels g rs))
  | JCommit k kept acc stopped =>
    let joined := filter (fun a => nmem a acc) kept in
    let gs := gs_of g k in
    let mem' := fold_left (fun m a => nadd a m) joined (g_mem gs) in
    let g1 := pg_map g (kupd (p_map g) k (Some (mkG mem' (g_lis gs)))) in
    let g2 := if null joined then g1 else pg_index g1 (index_add (p_index g1) (fst k) (snd k)) in
    (JS k joined (g_lis gs) stopped, set_held (set_pg c g2) k None)
  | JS k joined lis (a :: stopped) => (JS k joined lis stopped, set_pg c (pg_rels g (rels_remove_empty (p_rels g) a)))
  | JS k joined lis [] => if null joined then (JEmpty k, c) else (JN k joined lis, c)
  | JEmpty k => if free c k then (Done, set_pg c (pg_map g (map_remove_empty (p_map g) k))) else (p, c)
  | LAcq k acts =>
    if free c k then
      match p_map g k with
      | Some _ => (LL k acts acts, set_held c k (Some t))
      | None => (Done, c)
      end
    else (p, c)
  | LL k acts (a :: todo) =>
    let gs := gs_of g k in
    (LL k acts todo,
     set_pg c (pg_rels (pg_map g (kupd (p_map g) k (Some (mkG (nrem a (g_mem gs)) (g_lis gs)))))
                       (nupd (p_rels g) a (option_map (rel_rem_mem k) (p_rels g a)))))
  | LL k acts [] =>
    let gs := gs_of g k in
    let g1 := if null (g_mem gs) then pg_index g (index_rem (p_index g) (fst k) (snd k)) else g in
    (LN k acts (g_lis gs), set_held (set_pg c (pg_map g1 (kupd (p_map g1) k (norm_entry (g_mem gs) (g_lis gs))))) k None)
  | M0 gr a => (M1 gr a, set_pg c (pg_rels g (rels_create (p_rels g) a)))
  | M1 gr a =>
    let k := (DEFAULT, gr) in
    if free c k then
      let g1 := pg_create g k in
      if negb (p_dead g a)
      then (M3 gr a,
            (* the handle obtained at M0 is still the entry: entries of live actors are never removed *)
            let rs := rels_create (p_rels g) a in
            set_pg c (pg_rels (pg_map g1 (kupd (p_map g1) k (Some (mkG (mem_of g k) (nadd a (lis_of g k))))))
                              (nupd rs a (Some (rel_add_gmon k (rel_get rs a))))))
      else (M3 gr a, set_pg c g1)
    else (p, c)
  | M3 gr a => if p_dead g a then (M4 gr a, c) else (Done, c)
  | M4 gr a =>
    let k := (DEFAULT, gr) in
    if free c k then (M5 a, set_pg c (pg_map g (map_remove_empty (p_map g) k))) else (p, c)
  | M5 a => (Done, set_pg c (pg_rels g (rels_remove_empty (p_rels g) a)))
  | S0 s a => (S1 s a, set_pg c (pg_rels g (rels_create (p_rels g) a)))
  | S1 s a =>
    if negb (p_dead g a)
    then (S3 s a,
          let rs := rels_create (p_rels g) a in
          set_pg c (pg_rels (pg_world g (nupd (p_world g) s (Some (nadd a (world_of g s)))))
                            (nupd rs a (Some (rel_add_wmon s (rel_get rs a))))))
    else (S3 s a, set_pg c (pg_world g (nupd (p_world g) s (Some (world_of g s)))))
  | S3 s a => if p_dead g a then (S4 s a, c) else (Done, c)
  | S4 s a => (M5 a, set_pg c (pg_world g (world_remove_empty (p_world g) s)))
  | D0 gr a => (D1 gr a (is_some (p_rels g a)), c)
  | D1 gr a had =>
    let k := (DEFAULT, gr) in
    if free c k then
      let rels' := if had then nupd (p_rels g) a (option_map (rel_rem_gmon k) (p_rels g a)) else p_rels g in
      match p_map g k with
      | Some gs => (Done, set_pg c (pg_rels (pg_map g (kupd (p_map g) k (norm_entry (g_mem gs) (nrem a (g_lis gs))))) rels'))
      | None => (Done, set_pg c (pg_rels g rels'))
      end
    else (p, c)
  | DS0 s a => (DS1 s a (is_some (p_rels g a)), c)
  | DS1 s a had =>
    let rels' := if had then nupd (p_rels g) a (option_map (rel_rem_wmon s) (p_rels g a)) else p_rels g in
    match p_world g s with
    | Some ls => (Done, set_pg c (pg_rels (pg_world g (nupd (p_world g) s (norm_list (nrem a ls)))) rels'))
    | None => (Done, set_pg c (pg_rels g rels'))
    end
  | JN k joined lis => (JW1 k joined, c)
  | JW1 k joined => (JW2 k joined, c)
  | JW2 k joined => (Done, c)
  | LN k acts lis => (LW1 k acts, c)
  | LW1 k acts => (LW2 k acts, c)
  | LW2 k acts => (Done, c)
  | Done => (Done, c)
  end.

(* the notifications a thread step sends (the supervision port of each recipient is an
   unbounded FIFO channel: the global send order restricted to one recipient is its
   delivery order) *)
Definition tstep_evs (p : pc) (c : cstate) : list ev :=
  let g := c_pg c in
  match p with
  | JN k joined lis => notify_list lis true (fst k) (snd k) joined
  | JW1 k joined => notify_list (world_of g (fst k)) true (fst k) (snd k) joined
  | JW2 k joined => notify_list (world_of g WORLD) true (fst k) (snd k) joined
  | LN k acts lis => notify_list lis false (fst k) (snd k) acts
  | LW1 k acts => notify_list (world_of g (fst k)) false (fst k) (snd k) acts
  | LW2 k acts => notify_list (world_of g WORLD) false (fst k) (snd k) acts
  | _ => []
  end.

(* the entry section of leave_all for one key *)
Definition leave_one (g : pg) (a : N) (k : key) : pg :=
  let e := p_map g k in
  let g1 := pg_map g (kupd (p_map g) k (lclean a e)) in
  if emptied a e then pg_index g1 (index_rem (p_index g1) (fst k) (snd k)) else g1.

(* one step of the exit machine of actor a *)
Definition xstep (a : N) (x : xpc) (c : cstate) : xpc * cstate :=
  let g := c_pg c in
  match x with
  | XAlive => (XPub, set_pg c (pg_setdead g a))
  | XPub =>
    match p_rels g a with
    | None => (XL0, c)
    | Some r => (XDg (r_gmon r) (r_wmon r), set_pg c (pg_rels g (nupd (p_rels g) a (Some (mkR (r_mem r) [] [])))))
    end
  | XDg (k :: gm) wm =>
    if free c k then (XDg gm wm, set_pg c (pg_map g (kupd (p_map g) k (gclean a (p_map g k))))) else (x, c)
  | XDg [] wm => (XDw wm, c)
  | XDw (s :: wm) => (XDw wm, set_pg c (pg_world g (nupd (p_world g) s (wclean a (p_world g s)))))
  | XDw [] => (XL0, c)
  | XL0 =>
    match p_rels g a with
    | None => (XDone, c)
    | Some r => (XL (r_mem r) [], set_pg c (pg_rels g (nupd (p_rels g) a (Some (mkR [] (r_gmon r) (r_wmon r))))))
    end
  | XL (k :: todo) evs =>
    if free c k
    then (XL todo (evs ++ if nmem a (mem_of g k) then [(k, lis_of g k)] else []), set_pg c (leave_one g a k))
    else (x, c)
  | XL [] evs => (XRm evs, c)
  | XRm evs => (XN evs, set_pg c (pg_rels g (rels_remove_empty (p_rels g) a)))
  | XN ((k, lis) :: rest) => (XNW1 k rest, c)
  | XN [] => (XDone, c)
  | XNW1 k rest => (XNW2 k rest, c)
  | XNW2 k rest => (XN rest, c)
  | XDone => (XDone, c)
  end.

Definition xstep_evs (a : N) (x : xpc) (c : cstate) : list ev :=
  let g := c_pg c in
  match x with
  | XN ((k, lis) :: _) => notify_list lis false (fst k) (snd k) [a]
  | XNW1 k _ => notify_list (world_of g (fst k)) false (fst k) (snd k) [a]
  | XNW2 k _ => notify_list (world_of g WORLD) false (fst k) (snd k) [a]
  | _ => []
  end.

Inductive label := LT (t : nat) | LX (a : N).

Fixpoint upd_nth {A} (l : list A) (n : nat) (v : A) : list A :=
  match l, n with
  | [], _ => []
  | _ :: t, O => v :: t
  | x :: t, S n' => x :: upd_nth t n' v
  end.

Definition cstep (c : cstate) (l : label) : cstate :=
  match l with
  | LT t =>
    match nth_error (c_thr c) t with
    | Some p => let (p', c') := tstep t p c in mkC (c_pg c') (c_held c') (upd_nth (c_thr c') t p') (c_x c')
    | None => c
    end
  | LX a =>
    let (x', c') := xstep a (c_x c a) c in mkC (c_pg c') (c_held c') (c_thr c') (nupd (c_x c') a x')
  end.

Definition crun (c : cstate) (ls : list label) : cstate := fold_left cstep ls c.

(* the events sent by one step, and the log of a schedule *)
Definition cstep_evs (c : cstate) (l : label) : list ev :=
  match l with
  | LT t => match nth_error (c_thr c) t with Some p => tstep_evs p c | None => [] end
  | LX a => xstep_evs a (c_x c a) c
  end.
Fixpoint clog (c : cstate) (ls : list label) : list ev :=
  match ls with
  | [] => []
  | l :: t => cstep_evs c l ++ clog (cstep c l) t
  end.

(* the calls of the public API as initial program counters *)
Inductive call :=
| CJoin (s g : N) (acts : list N) | CLeave (s g : N) (acts : list N)
| CMon (g a : N) | CMonScope (s a : N) | CDemon (g a : N) | CDemonScope (s a : N).

Definition pc_of (cl : call) : pc :=
  match cl with
  | CJoin s g acts => JF (s, g) acts []
  | CLeave s g acts => LAcq (s, g) acts
  | CMon g a => M0 g a
  | CMonScope s a => S0 s a
  | CDemon g a => D0 g a
  | CDemonScope s a => DS0 s a
  end.

(* initial state: the empty pg state, all actors alive, one thread per call *)
Definition cinit (calls : list call) : cstate :=
  mkC pg0 (fun _ => None) (map pc_of calls) (fun _ => XAlive).

(* ---------- solo runs: a single call / exit executed to completion on a quiescent state.
   Used by the check to tie this model to the atomic one (and thereby to the code). ---------- *)
Fixpoint solo_thread (fuel : nat) (p : pc) (c : cstate) (log : list ev) : cstate * list ev :=
  match fuel with
  | O => (c, log)
  | S f => match p with
           | Done => (c, log)
           | _ => let (p', c') := tstep 0 p c in solo_thread f p' c' (log ++ tstep_evs p c)
           end
  end.
Fixpoint solo_exit (fuel : nat) (a : N) (x : xpc) (c : cstate) (log : list ev) : cstate * list ev :=
  match fuel with
  | O => (c, log)
  | S f => match x with
           | XDone => (mkC (c_pg c) (c_held c) (c_thr c) (nupd (c_x c) a XDone), log)
           | _ => let (x', c') := xstep a x c in solo_exit f a x' c' (log ++ xstep_evs a x c)
           end
  end.
Definition solo_op_e (c : cstate) (o : op) : cstate * list ev :=
  match o with
  | OJoin s g acts => solo_thread 1000 (pc_of (CJoin s g acts)) c []
  | OLeave s g acts => solo_thread 1000 (pc_of (CLeave s g acts)) c []
  | OMon g a => solo_thread 1000 (pc_of (CMon g a)) c []
  | OMonScope s a => solo_thread 1000 (pc_of (CMonScope s a)) c []
  | ODemon g a => solo_thread 1000 (pc_of (CDemon g a)) c []
  | ODemonScope s a => solo_thread 1000 (pc_of (CDemonScope s a)) c []
  | OExit a => match c_x c a with XAlive => solo_exit 1000 a XAlive c [] | _ => (c, []) end
  end.
Definition solo_op (c : cstate) (o : op) : cstate := fst (solo_op_e c o).
Fixpoint evs_eqb (a b : list ev) : bool :=
  match a, b with
  | [], [] => true
  | x :: a', y :: b' => ev_eqb x y && evs_eqb a' b'
  | _, _ => false
  end.
(* after every operation: do the micro-step model and the atomic model show the same view? *)
Fixpoint solo_agree (u : universe) (c : cstate) (st : pg) (ops : list op) : bool :=
  match ops with
  | [] => true
  | o :: t =>
    let c' := solo_op c o in
    let st' := fst (step st o) in
    (* same notifications, in the same order (group batches of an exit follow the model's key order) *)
    evs_eqb (snd (solo_op_e c o)) (snd (step st o)) &&
    let v1 := view_of u (c_pg c') [] in
    let v2 := view_of u st' [] in
    forallb (fun k => nset_eqb (klookup [] k (v_members v1)) (klookup [] k (v_members v2))
                      && nset_eqb (snd (klookup ([], []) k (sn_map (v_snap v1)))) (snd (klookup ([], []) k (sn_map (v_snap v2))))
                      && Bool.eqb (is_some (p_map (c_pg c') k)) (is_some (p_map st' k))
                      && negb (is_some (c_held c' k))) (u_keys u)
    && forallb (fun s => nset_eqb (which_scoped_groups (c_pg c') s) (which_scoped_groups st' s)
                         && nset_eqb (world_of (c_pg c') s) (world_of st' s)
                         && Bool.eqb (is_some (p_world (c_pg c') s)) (is_some (p_world st' s))) (WORLD :: u_scopes u)
    && forallb (fun a => let r1 := rel_of (c_pg c') a in let r2 := rel_of st' a in
                         kset_eqb (r_mem r1) (r_mem r2) && kset_eqb (r_gmon r1) (r_gmon r2) && nset_eqb (r_wmon r1) (r_wmon r2)
                         && Bool.eqb (is_some (p_rels (c_pg c') a)) (is_some (p_rels st' a))
                         && Bool.eqb (p_dead (c_pg c') a) (p_dead st' a)) (u_actors u)
    && kset_eqb (which_scopes_and_groups (c_pg c')) (which_scopes_and_groups st')
    && solo_agree u c' st' t
  end.
