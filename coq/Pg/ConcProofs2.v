(* More invariants of the micro-step model (Pg/Conc.v), for every interleaving:
   P1 index agreement modulo held entries, P4 leak-freedom of actor_relations. *)
From Coq Require Import List NArith Bool Lia PeanoNat.
From RV Require Import Pg.Model Pg.Proofs Pg.Conc Pg.ConcProofs.
Import ListNotations.
Local Open Scope N_scope.

(* ---------- P1: the scope index lists exactly the groups with members, except while a
   leave_scoped section holds the entry (it removes members first and fixes the index in
   its final step) ---------- *)
Definition in_LL (thr : list pc) (k : key) : Prop :=
  exists t acts todo, nth_error thr t = Some (LL k acts todo).

Record pinv (c : cstate) : Prop := mkPinv {
  p1a : forall s g, mem_of (c_pg c) (s, g) <> [] -> In g (index_of (c_pg c) s);
  p1b : forall s g, In g (index_of (c_pg c) s) -> mem_of (c_pg c) (s, g) <> [] \/ in_LL (c_thr c) (s, g) }.

Lemma pinv_frame c g' thr' x' held' :
  pinv c ->
  (forall k, mem_of g' k = mem_of (c_pg c) k) ->
  (forall s, index_of g' s = index_of (c_pg c) s) ->
  (forall k, in_LL (c_thr c) k -> in_LL thr' k) ->
  pinv (mkC g' held' thr' x').
Proof.
  intros P M X L. constructor; simpl; intros s g; rewrite M, X.
  - apply (p1a _ P).
  - intros H. destruct (p1b _ P s g H); auto.
Qed.

Lemma nth_upd_same {A} (l : list A) t v p : nth_error l t = Some p -> nth_error (upd_nth l t v) t = Some v.
Proof.
  revert t. induction l as [|x l IH]; intros [|t]; simpl; intros H; try discriminate; auto.
Qed.
Lemma nth_upd_other {A} (l : list A) t v t' : t' <> t -> nth_error (upd_nth l t v) t' = nth_error l t'.
Proof.
  revert t t'. induction l as [|x l IH]; intros [|t] [|t']; simpl; intros H; auto; try congruence.
Qed.

(* a thread that is not inside (or stays inside) a leave section keeps every in_LL fact *)
Lemma inLL_upd thr t p p' k :
  nth_error thr t = Some p ->
  (forall acts todo, p = LL k acts todo -> exists acts' todo', p' = LL k acts' todo') ->
  in_LL thr k -> in_LL (upd_nth thr t p') k.
Proof.
  intros N H [t' [acts [todo E]]]. destruct (Nat.eq_dec t' t) as [->|Ne].
  - rewrite N in E. inversion E; subst. destruct (H acts todo eq_refl) as [acts' [todo' ->]].
    exists t, acts', todo'. eapply nth_upd_same; eauto.
  - exists t', acts, todo. rewrite nth_upd_other; auto.
Qed.

Lemma mem_create g k k' : mem_of (pg_create g k) k' = mem_of g k'.
Proof. unfold mem_of. rewrite gs_create. auto. Qed.
Lemma mem_remove_empty g k k' : mem_of (pg_map g (map_remove_empty (p_map g) k)) k' = mem_of g k'.
Proof. unfold mem_of. rewrite gs_remove_empty. auto. Qed.

Lemma In_index_add idx s g s' g' :
  In g' (olist (index_add idx s g s')) <-> (s = s' /\ g' = g) \/ In g' (olist (idx s')).
Proof.
  unfold index_add, nupd. ncase s s'; simpl.
  - rewrite In_nadd. unfold olist. destruct (idx s'); intuition.
  - intuition congruence.
Qed.
Lemma In_index_rem idx s g s' g' :
  In g' (olist (index_rem idx s g s')) <-> In g' (olist (idx s')) /\ ~ (s = s' /\ g' = g).
Proof.
  rewrite olist_index_rem. ncase s s'.
  - rewrite In_nrem. intuition.
  - intuition congruence.
Qed.

Lemma pinv_tstep c t p : cinv c -> pinv c -> nth_error (c_thr c) t = Some p ->
  pinv (let (p', c') := tstep t p c in mkC (c_pg c') (c_held c') (upd_nth (c_thr c') t p') (c_x c')).
Proof.
  intros I P N.
  assert (FR : forall p' g' held',
             (forall k, mem_of g' k = mem_of (c_pg c) k) ->
             (forall s, index_of g' s = index_of (c_pg c) s) ->
             (forall k acts todo, p = LL k acts todo -> exists acts' todo', p' = LL k acts' todo') ->
             pinv (mkC g' held' (upd_nth (c_thr c) t p') (c_x c))).
  { intros p' g' held' M X L. apply (pinv_frame c); auto. intros k. apply (inLL_upd _ _ p); auto. intros ac td E. apply (L k ac td E). }
  destruct p; simpl.
  - destruct todo as [|a todo]; [destruct (null kept)|]; simpl; apply FR; auto; discriminate.
  - destruct (free c k); simpl; apply FR; auto; try discriminate. intros. apply mem_create.
  - destruct todo as [|a todo]; simpl; [apply FR; auto; discriminate|].
    destruct (nmem a seen); simpl; [apply FR; auto; discriminate|].
    destruct (p_dead (c_pg c) a); simpl; apply FR; auto; discriminate.
  - (* JCommit *)
    set (g := c_pg c). set (joined := filter (fun a => nmem a acc) kept).
    set (mem' := fold_left (fun m a => nadd a m) joined (g_mem (gs_of g k))).
    assert (HM : forall k', mem_of (if null joined
                   then pg_map g (kupd (p_map g) k (Some (mkG mem' (g_lis (gs_of g k)))))
                   else pg_index (pg_map g (kupd (p_map g) k (Some (mkG mem' (g_lis (gs_of g k))))))
                          (index_add (p_index g) (fst k) (snd k))) k'
                 = if keqb k k' then mem' else mem_of g k').
    { intros k'. destruct (null joined); unfold mem_of, gs_of; simpl; unfold kupd; destruct (keqb k k'); auto. }
    assert (LLp : forall k', in_LL (c_thr c) k' -> in_LL (upd_nth (c_thr c) t (JS k joined (g_lis (gs_of g k)) stopped)) k').
    { intros k'. apply (inLL_upd _ _ _ _ _ N). discriminate. }
    destruct k as [ks kg]. simpl fst; simpl snd.
    destruct (null joined) eqn:EJ.
    + apply null_nil in EJ. assert (E : mem' = mem_of g (ks, kg)) by (unfold mem'; rewrite EJ; auto).
      constructor; simpl; intros s g0; rewrite HM.
      * kcase (ks, kg) (s, g0); [rewrite E|]; apply (p1a _ P).
      * intros H. destruct (p1b _ P s g0 H) as [X|X]; auto. left. kcase (ks, kg) (s, g0); auto. rewrite E; auto.
    + apply null_false in EJ.
      assert (NE : mem' <> []).
      { destruct joined as [|a0 j] eqn:EQ; [congruence|]. intros E.
        assert (X : In a0 mem') by (unfold mem'; apply In_fold_nadd; right; left; auto).
        rewrite E in X. destruct X. }
      constructor; simpl; intros s g0; rewrite HM; rewrite index_of_olist; simpl; rewrite In_index_add.
      * kcase (ks, kg) (s, g0); [auto|]. intros H. right. apply (p1a _ P); auto.
      * intros [[-> ->]|H].
        -- left. rewrite keqb_refl. auto.
        -- destruct (p1b _ P s g0 H) as [X|X]; auto. left. kcase (ks, kg) (s, g0); auto.
  - destruct stopped as [|a stopped]; [destruct (null joined)|]; simpl; apply FR; auto; discriminate.
  - destruct (free c k); simpl; apply FR; auto; try discriminate. intros. apply mem_remove_empty.
  - (* LAcq *) destruct (free c k); simpl; [destruct (p_map (c_pg c) k)|]; simpl; apply FR; auto; discriminate.
  - (* LL *) destruct todo as [|a todo]; simpl.
    + set (g := c_pg c). set (gs := gs_of g k). destruct k as [ks kg]. simpl fst; simpl snd.
      assert (Hgs : mem_of g (ks, kg) = g_mem gs) by reflexivity.
      assert (NoLL : forall k', k' <> (ks, kg) -> in_LL (c_thr c) k' -> in_LL (upd_nth (c_thr c) t (LN (ks, kg) acts (g_lis gs))) k').
      { intros k' Hk. apply (inLL_upd _ _ _ _ _ N). intros ac todo E. inversion E; subst. congruence. }
      destruct (null (g_mem gs)) eqn:EN.
      * apply null_nil in EN.
        assert (HM : forall k', mem_of (pg_map (pg_index g (index_rem (p_index g) ks kg))
                        (kupd (p_map (pg_index g (index_rem (p_index g) ks kg))) (ks, kg) (norm_entry (g_mem gs) (g_lis gs)))) k'
                     = mem_of g k').
        { intros k'. unfold mem_of. rewrite gs_of_ogs. simpl. unfold kupd. kcase (ks, kg) k'; auto.
          rewrite ogs_norm. reflexivity. }
        constructor; simpl; intros s g0; rewrite HM; rewrite index_of_olist; simpl; rewrite In_index_rem.
        -- intros H. split; [apply (p1a _ P); auto|]. intros [-> ->]. rewrite Hgs, EN in H. congruence.
        -- intros [H Hn]. destruct (p1b _ P s g0 H) as [X|X]; auto. right. apply NoLL; auto.
           intros E. inversion E; subst. tauto.
      * apply null_false in EN.
        assert (HM : forall k', mem_of (pg_map g (kupd (p_map g) (ks, kg) (norm_entry (g_mem gs) (g_lis gs)))) k' = mem_of g k').
        { intros k'. unfold mem_of. rewrite gs_of_ogs. simpl. unfold kupd. kcase (ks, kg) k'; auto.
          rewrite ogs_norm. reflexivity. }
        constructor; simpl; intros s g0; rewrite HM.
        -- apply (p1a _ P).
        -- intros H. destruct (p1b _ P s g0 H) as [X|X]; auto.
           destruct (keqb_spec (s, g0) (ks, kg)) as [E|E].
           ++ inversion E; subst. left. rewrite Hgs. auto.
           ++ right. apply NoLL; auto.
    + (* one member removed; the index is fixed by the final step *)
      set (g := c_pg c).
      assert (HM : forall k', mem_of (pg_rels (pg_map g (kupd (p_map g) k (Some (mkG (nrem a (g_mem (gs_of g k))) (g_lis (gs_of g k))))))
                        (nupd (p_rels g) a (option_map (rel_rem_mem k) (p_rels g a)))) k'
                   = if keqb k k' then nrem a (mem_of g k) else mem_of g k').
      { intros k'. unfold mem_of, gs_of; simpl; unfold kupd; destruct (keqb k k'); auto. }
      assert (LLk : forall k', in_LL (c_thr c) k' -> in_LL (upd_nth (c_thr c) t (LL k acts todo)) k').
      { intros k'. apply (inLL_upd _ _ _ _ _ N). intros ac td E. inversion E; subst. eauto. }
      constructor; simpl; intros s g0; rewrite HM.
      * kcase k (s, g0); [|apply (p1a _ P)]. intros H. apply (p1a _ P). intros E. apply H. fold g in E. rewrite E. reflexivity.
      * intros H. kcase k (s, g0).
        -- right. exists t, acts, todo. eapply nth_upd_same; eauto.
        -- destruct (p1b _ P s g0 H) as [X|X]; auto.
  - apply FR; auto; discriminate.
  - destruct (free c (DEFAULT, g)); simpl; [destruct (p_dead (c_pg c) a); simpl|]; apply FR; auto; try discriminate.
    + intros. apply mem_create.
    + intros k'. unfold mem_of, gs_of; simpl; unfold kupd. kcase (DEFAULT, g) k'; auto.
  - destruct (p_dead (c_pg c) a); simpl; apply FR; auto; discriminate.
  - destruct (free c (DEFAULT, g)); simpl; apply FR; auto; try discriminate. intros. apply mem_remove_empty.
  - apply FR; auto; discriminate.
  - apply FR; auto; discriminate.
  - destruct (p_dead (c_pg c) a); simpl; apply FR; auto; discriminate.
  - destruct (p_dead (c_pg c) a); simpl; apply FR; auto; discriminate.
  - apply FR; auto; discriminate.
  - apply FR; auto; discriminate.
  - destruct (free c (DEFAULT, g)); simpl; [destruct (p_map (c_pg c) (DEFAULT, g)) as [gs|] eqn:EG|]; apply FR; auto; try discriminate.
    intros k'. unfold mem_of. rewrite gs_of_ogs. simpl. unfold kupd. kcase (DEFAULT, g) k'; auto.
    rewrite ogs_norm. simpl. unfold gs_of. rewrite EG. auto.
  - apply FR; auto; discriminate.
  - destruct (p_world (c_pg c) s); apply FR; auto; discriminate.
  - apply FR; auto; discriminate.
  - apply FR; auto; discriminate.
  - apply FR; auto; discriminate.
  - apply FR; auto; discriminate.
  - apply FR; auto; discriminate.
  - apply FR; auto; discriminate.
  - apply FR; auto; discriminate.
Qed.

Lemma pinv_xstep c a : cinv c -> pinv c ->
  pinv (let (x', c') := xstep a (c_x c a) c in mkC (c_pg c') (c_held c') (c_thr c') (nupd (c_x c') a x')).
Proof.
  intros I P.
  assert (FR : forall g' held' x',
             (forall k, mem_of g' k = mem_of (c_pg c) k) ->
             (forall s, index_of g' s = index_of (c_pg c) s) ->
             pinv (mkC g' held' (c_thr c) x')).
  { intros. apply (pinv_frame c); auto. }
  destruct (c_x c a) eqn:XA; simpl.
  - apply FR; auto.
  - destruct (p_rels (c_pg c) a); simpl; apply FR; auto.
  - destruct gmons as [|k gm]; simpl; [apply FR; auto|].
    destruct (free c k); simpl; apply FR; auto.
    intros k'. unfold mem_of. rewrite gs_of_ogs. simpl. unfold kupd. kcase k k'; auto.
    rewrite ogs_gclean. reflexivity.
  - destruct wmons as [|s wm]; simpl; apply FR; auto.
  - destruct (p_rels (c_pg c) a); simpl; apply FR; auto.
  - destruct todo as [|k todo]; simpl; [apply FR; auto|].
    destruct (free c k); simpl; [|apply FR; auto].
    set (g := c_pg c). destruct k as [ks kg].
    assert (HM : forall k', mem_of (leave_one g a (ks, kg)) k' = if keqb (ks, kg) k' then nrem a (mem_of g (ks, kg)) else mem_of g k').
    { intros k'. unfold mem_of. rewrite leave_one_gs. destruct (keqb (ks, kg) k'); auto. }
    assert (HE : emptied a (p_map g (ks, kg)) = nmem a (mem_of g (ks, kg)) && null (nrem a (mem_of g (ks, kg)))).
    { rewrite emptied_ogs. reflexivity. }
    assert (HX : forall s g0, In g0 (index_of (leave_one g a (ks, kg)) s) <->
                  In g0 (index_of g s) /\ ~ (emptied a (p_map g (ks, kg)) = true /\ (ks, kg) = (s, g0))).
    { intros s g0. unfold leave_one. destruct (emptied a (p_map g (ks, kg))).
      - rewrite index_of_olist. simpl. rewrite In_index_rem. rewrite index_of_olist.
        split; intros [A B]; split; auto.
        + intros [_ E]. inversion E; subst. tauto.
        + intros [-> ->]. tauto.
      - split; [intros H; split; auto; intros [X _]; discriminate|tauto]. }
    constructor; simpl; intros s g0; rewrite HM, HX.
    + kcase (ks, kg) (s, g0).
      * intros H. split.
        -- apply (p1a _ P). intros E. fold g in E. rewrite E in H. auto.
        -- intros [E _]. rewrite HE in E. apply andb_true_iff in E. destruct E as [_ E].
           apply null_nil in E. auto.
      * intros H. split; [apply (p1a _ P); auto|]. intros [_ E]. congruence.
    + intros [H Hn]. destruct (p1b _ P s g0 H) as [X|X]; auto.
      kcase (ks, kg) (s, g0); auto. left. fold g in X.
      destruct (nmem a (mem_of g (s, g0))) eqn:EM.
      * intros E. apply Hn. split; auto. rewrite HE, E. reflexivity.
      * apply nmem_nIn in EM. rewrite nrem_notin; auto.
  - apply FR; auto.
  - destruct evs as [|[k lis] rest]; simpl; apply FR; auto.
  - apply FR; auto.
  - apply FR; auto.
  - apply FR; auto.
Qed.

Theorem pinv_cstep c l : cinv c -> pinv c -> pinv (cstep c l).
Proof.
  intros I P. destruct l as [t|a]; simpl.
  - destruct (nth_error (c_thr c) t) as [p|] eqn:N; auto.
    pose proof (pinv_tstep c t p I P N) as X. destruct (tstep t p c) as [p' c'] eqn:E.
    pose proof (tstep_thr t p c) as [T1 T2]. rewrite E in T1, T2. simpl in T1, T2.
    rewrite T1 in X. rewrite T1. exact X.
  - pose proof (pinv_xstep c a I P) as X. destruct (xstep a (c_x c a) c) as [x' c'] eqn:E.
    pose proof (xstep_thr a (c_x c a) c) as [T1 [T2 T3]]. rewrite E in T1, T2, T3. simpl in *.
    rewrite T2 in X. rewrite T2. exact X.
Qed.

Lemma pinv_init calls : pinv (cinit calls).
Proof. constructor; simpl; unfold mem_of, gs_of, index_of; simpl; intros; tauto. Qed.

Theorem pinv_crun calls ls : pinv (crun (cinit calls) ls).
Proof.
  unfold crun. induction ls as [|l ls IH] using rev_ind; simpl; [apply pinv_init|].
  rewrite fold_left_app. simpl. apply pinv_cstep; auto.
  pose proof (cinv_crun calls ls) as X. unfold crun in X. exact X.
Qed.

(* P1 for every schedule: at every state where no leave_scoped section holds the entry of
   (s,g) — in particular whenever nobody holds it — the scope index lists g iff it has members *)
Theorem index_agree_conc calls ls s g :
  let c := crun (cinit calls) ls in
  ~ in_LL (c_thr c) (s, g) ->
  (In g (which_scoped_groups (c_pg c) s) <-> get_members (c_pg c) s g <> []).
Proof.
  intros c H. pose proof (pinv_crun calls ls) as P. fold c in P.
  unfold which_scoped_groups, get_members. split.
  - intros X. destruct (p1b _ P s g X); tauto.
  - apply (p1a _ P).
Qed.

Lemma inLL_held c k : cinv c -> in_LL (c_thr c) k -> c_held c k <> None.
Proof.
  intros I [t [acts [todo E]]]. rewrite (k_held _ I _ _ k E); [discriminate|simpl; auto].
Qed.

Theorem index_agree_unheld calls ls s g :
  let c := crun (cinit calls) ls in
  c_held c (s, g) = None ->
  (In g (which_scoped_groups (c_pg c) s) <-> get_members (c_pg c) s g <> []).
Proof.
  intros c H. apply index_agree_conc. intros X.
  apply (inLL_held c (s, g) (cinv_crun calls ls)) in X. auto.
Qed.

(* ---------- P4: no leaked actor_relations entry ---------- *)
(* threads that will still call remove_empty_actor_relations for actor a once it is stopping *)
Definition obliged (p : pc) (a : N) : Prop :=
  match p with
  | JL _ _ _ _ _ stopped => In a stopped
  | JCommit _ _ _ stopped => In a stopped
  | JS _ _ _ stopped => In a stopped
  | M1 _ a' => a' = a | M3 _ a' => a' = a | M4 _ a' => a' = a | M5 a' => a' = a
  | S1 _ a' => a' = a | S3 _ a' => a' = a | S4 _ a' => a' = a
  | _ => False
  end.

(* the exit machine has not yet executed its own remove_empty_actor_relations *)
Definition pre_rm (x : xpc) : Prop :=
  match x with XN _ => False | XNW1 _ _ => False | XNW2 _ _ => False | XDone => False | _ => True end.

Definition rinv (c : cstate) : Prop :=
  forall a, p_rels (c_pg c) a <> None ->
    pre_rm (c_x c a) \/ exists t p, nth_error (c_thr c) t = Some p /\ obliged p a.

Lemma pre_rm_dec x : pre_rm x \/ ~ pre_rm x.
Proof. destruct x; simpl; tauto. Qed.
Lemma post_rm_late x : ~ pre_rm x -> ~ pre_take_m x /\ ~ pre_take_g x.
Proof. destruct x; simpl; tauto. Qed.

Lemma nil_of_notin {A} (l : list A) : (forall x, ~ In x l) -> l = [].
Proof. destruct l; auto. intros H. exfalso. apply (H a). left; auto. Qed.

Lemma rel_empty_late c a : cinv c -> ~ pre_take_m (c_x c a) -> ~ pre_take_g (c_x c a) ->
  rel_is_empty (rel_of (c_pg c) a) = true.
Proof.
  intros I M G. unfold rel_is_empty.
  rewrite (nil_of_notin (r_mem (rel_of (c_pg c) a))), (nil_of_notin (r_gmon (rel_of (c_pg c) a))),
    (nil_of_notin (r_wmon (rel_of (c_pg c) a))); auto.
  - intros s H. apply G. apply (k_rwmon _ I _ _ H).
  - intros k H. apply G. apply (k_rgmon _ I _ _ H).
  - intros k H. apply M. apply (k_rmem _ I _ _ H).
Qed.

Lemma remove_empty_none c a : cinv c -> ~ pre_rm (c_x c a) \/ (exists evs, c_x c a = XRm evs) ->
  rels_remove_empty (p_rels (c_pg c)) a a = None.
Proof.
  intros I H. unfold rels_remove_empty. destruct (p_rels (c_pg c) a) as [r|] eqn:R; auto.
  assert (E : rel_is_empty r = true).
  { replace r with (rel_of (c_pg c) a) by (unfold rel_of; rewrite R; auto).
    destruct H as [H|[evs H]].
    - apply post_rm_late in H. apply rel_empty_late; tauto.
    - apply rel_empty_late; auto; rewrite H; simpl; tauto. }
  rewrite E. apply nupd_eq.
Qed.
Lemma remove_empty_other rs a b : a <> b -> rels_remove_empty rs a b = rs b.
Proof.
  intros H. unfold rels_remove_empty. destruct (rs a); auto. destruct (rel_is_empty r); auto.
  apply nupd_neq; auto.
Qed.
Lemma create_other rs a b : a <> b -> rels_create rs a b = rs b.
Proof. intros H. unfold rels_create. destruct (rs a); auto. apply nupd_neq; auto. Qed.


Lemma rinv_frame_thr c t p p' g' held' :
  rinv c -> nth_error (c_thr c) t = Some p ->
  (forall b, p_rels g' b <> None -> p_rels (c_pg c) b <> None \/ obliged p' b \/ pre_rm (c_x c b)) ->
  (forall b, obliged p b -> obliged p' b \/ pre_rm (c_x c b) \/ p_rels g' b = None) ->
  rinv (mkC g' held' (upd_nth (c_thr c) t p') (c_x c)).
Proof.
  intros R N C1 C2 b Hb. simpl in *.
  destruct (C1 b Hb) as [H|[H|H]]; auto.
  - destruct (R b H) as [X|[t' [p0 [E O]]]]; auto.
    destruct (Nat.eq_dec t' t) as [->|Ne].
    + rewrite N in E. inversion E; subst. destruct (C2 b O) as [Y|[Y|Y]].
      * right. exists t, p'. split; auto. eapply nth_upd_same; eauto.
      * auto.
      * contradiction.
    + right. exists t', p0. split; auto. rewrite nth_upd_other; auto.
  - right. exists t, p'. split; auto. eapply nth_upd_same; eauto.
Qed.

Lemma rinv_tstep c t p : cinv c -> rinv c -> nth_error (c_thr c) t = Some p ->
  rinv (let (p', c') := tstep t p c in mkC (c_pg c') (c_held c') (upd_nth (c_thr c') t p') (c_x c')).
Proof.
  intros I R N.
  assert (SAME : forall p' g' held', p_rels g' = p_rels (c_pg c) ->
            (forall b, obliged p b -> obliged p' b \/ pre_rm (c_x c b) \/ p_rels g' b = None) ->
            rinv (mkC g' held' (upd_nth (c_thr c) t p') (c_x c))).
  { intros p' g' held' E O. apply (rinv_frame_thr c t p); auto. intros b Hb. rewrite E in Hb. auto. }
  destruct p; simpl.
  - destruct todo as [|a todo]; [destruct (null kept)|]; simpl; apply SAME; auto; simpl; tauto.
  - destruct (free c k); simpl; apply SAME; auto; simpl; tauto.
  - destruct todo as [|a todo]; simpl; [apply SAME; auto; simpl; auto|].
    destruct (nmem a seen); simpl; [apply SAME; auto; simpl; auto|].
    destruct (p_dead (c_pg c) a) eqn:D; simpl.
    + (* rejected under the lock: entry created; queued for removal if empty *)
      apply (rinv_frame_thr c t _ _ _ _ R N); simpl.
      * intros b Hb. destruct (N.eq_dec a b) as [->|Ne].
        -- destruct (pre_rm_dec (c_x c b)) as [X|X]; auto. right. left.
           assert (E : rel_is_empty (rel_get (rels_create (p_rels (c_pg c)) b) b) = true).
           { unfold rel_get. change (rel_is_empty (orel (rels_create (p_rels (c_pg c)) b b)) = true).
             rewrite orel_create. apply post_rm_late in X. apply rel_empty_late; tauto. }
           rewrite E. left; auto.
        -- left. rewrite create_other in Hb; auto.
      * intros b Hb. left. destruct (rel_is_empty _); simpl; auto.
    + apply (rinv_frame_thr c t _ _ _ _ R N); simpl; auto.
      intros b Hb. destruct (N.eq_dec a b) as [->|Ne].
      * right. right. rewrite (pc_dead_alive _ _ I D). simpl. auto.
      * left. unfold nupd in Hb. apply N.eqb_neq in Ne. rewrite Ne in Hb.
        apply N.eqb_neq in Ne. rewrite create_other in Hb; auto.
  - (* JCommit *) apply (rinv_frame_thr c t _ _ _ _ R N); simpl; auto.
    intros b Hb. left. destruct (null _); exact Hb.
  - (* JS *) destruct stopped as [|a stopped]; simpl.
    + destruct (null joined); simpl; apply SAME; auto; simpl; tauto.
    + apply (rinv_frame_thr c t _ _ _ _ R N); simpl.
      * intros b Hb. destruct (N.eq_dec a b) as [->|Ne].
        -- destruct (pre_rm_dec (c_x c b)) as [X|X]; auto.
           rewrite remove_empty_none in Hb; auto; try congruence.
        -- left. rewrite remove_empty_other in Hb; auto.
      * intros b [<-|Hb]; auto.
        destruct (pre_rm_dec (c_x c a)) as [X|X]; auto. right. right. apply remove_empty_none; auto.
  - destruct (free c k); simpl; apply SAME; auto; simpl; tauto.
  - destruct (free c k); simpl; [destruct (p_map (c_pg c) k)|]; simpl; apply SAME; auto; simpl; tauto.
  - (* LL *) destruct todo as [|a todo]; simpl.
    + apply (rinv_frame_thr c t _ _ _ _ R N); simpl; try tauto.
      intros b Hb. left. destruct (null _); exact Hb.
    + apply (rinv_frame_thr c t _ _ _ _ R N); simpl; try tauto.
      intros b Hb. left. unfold nupd in Hb. destruct (N.eqb_spec a b) as [->|Ne]; auto.
      destruct (p_rels (c_pg c) b); simpl in *; congruence.
  - (* M0 *) apply (rinv_frame_thr c t _ _ _ _ R N); simpl; try tauto.
    intros b Hb. destruct (N.eq_dec a b) as [->|Ne]; auto. left. rewrite create_other in Hb; auto.
  - (* M1 *) destruct (free c (DEFAULT, g)); simpl; [|apply SAME; auto; simpl; auto].
    destruct (p_dead (c_pg c) a) eqn:D; simpl; [apply SAME; auto; simpl; auto|].
    apply (rinv_frame_thr c t _ _ _ _ R N); simpl; auto.
    intros b Hb. destruct (N.eq_dec a b) as [->|Ne]; auto.
    left. unfold nupd in Hb. apply N.eqb_neq in Ne. rewrite Ne in Hb.
    apply N.eqb_neq in Ne. rewrite create_other in Hb; auto.
  - (* M3 *) destruct (p_dead (c_pg c) a) eqn:D; simpl; apply SAME; auto; simpl; auto.
    intros b <-. right. left. rewrite (pc_dead_alive _ _ I D). simpl. auto.
  - destruct (free c (DEFAULT, g)); simpl; apply SAME; auto; simpl; auto.
  - (* M5 *) apply (rinv_frame_thr c t _ _ _ _ R N); simpl.
    + intros b Hb. destruct (N.eq_dec a b) as [->|Ne].
      * destruct (pre_rm_dec (c_x c b)) as [X|X]; auto. rewrite remove_empty_none in Hb; auto; try congruence.
      * left. rewrite remove_empty_other in Hb; auto.
    + intros b <-. destruct (pre_rm_dec (c_x c a)) as [X|X]; auto. right. right. apply remove_empty_none; auto.
  - (* S0 *) apply (rinv_frame_thr c t _ _ _ _ R N); simpl; try tauto.
    intros b Hb. destruct (N.eq_dec a b) as [->|Ne]; auto. left. rewrite create_other in Hb; auto.
  - (* S1 *) destruct (p_dead (c_pg c) a) eqn:D; simpl; [apply SAME; auto; simpl; auto|].
    apply (rinv_frame_thr c t _ _ _ _ R N); simpl; auto.
    intros b Hb. destruct (N.eq_dec a b) as [->|Ne]; auto.
    left. unfold nupd in Hb. apply N.eqb_neq in Ne. rewrite Ne in Hb.
    apply N.eqb_neq in Ne. rewrite create_other in Hb; auto.
  - (* S3 *) destruct (p_dead (c_pg c) a) eqn:D; simpl; apply SAME; auto; simpl; auto.
    intros b <-. right. left. rewrite (pc_dead_alive _ _ I D). simpl. auto.
  - apply SAME; auto; simpl; auto.
  - apply SAME; auto; simpl; tauto.
  - (* D1 *) destruct (free c (DEFAULT, g)); simpl; [|apply SAME; auto; simpl; tauto].
    assert (X : forall b, (if had then nupd (p_rels (c_pg c)) a (option_map (rel_rem_gmon (DEFAULT, g)) (p_rels (c_pg c) a))
                            else p_rels (c_pg c)) b <> None -> p_rels (c_pg c) b <> None).
    { intros b. destruct had; auto. unfold nupd. destruct (N.eqb_spec a b) as [->|Ne]; auto.
      destruct (p_rels (c_pg c) b); simpl; congruence. }
    destruct (p_map (c_pg c) (DEFAULT, g)); apply (rinv_frame_thr c t _ _ _ _ R N); simpl; try tauto;
      intros b Hb; left; apply X; exact Hb.
  - apply SAME; auto; simpl; tauto.
  - (* DS1 *)
    assert (X : forall b, (if had then nupd (p_rels (c_pg c)) a (option_map (rel_rem_wmon s) (p_rels (c_pg c) a))
                            else p_rels (c_pg c)) b <> None -> p_rels (c_pg c) b <> None).
    { intros b. destruct had; auto. unfold nupd. destruct (N.eqb_spec a b) as [->|Ne]; auto.
      destruct (p_rels (c_pg c) b); simpl; congruence. }
    destruct (p_world (c_pg c) s); apply (rinv_frame_thr c t _ _ _ _ R N); simpl; try tauto;
      intros b Hb; left; apply X; exact Hb.
  - apply SAME; auto; simpl; tauto.
  - apply SAME; auto; simpl; tauto.
  - apply SAME; auto; simpl; tauto.
  - apply SAME; auto; simpl; tauto.
  - apply SAME; auto; simpl; tauto.
  - apply SAME; auto; simpl; tauto.
  - apply SAME; auto; simpl; tauto.
Qed.

Lemma rinv_xstep c a : cinv c -> rinv c ->
  rinv (let (x', c') := xstep a (c_x c a) c in mkC (c_pg c') (c_held c') (c_thr c') (nupd (c_x c') a x')).
Proof.
  intros I R.
  (* entries of other actors are untouched; for a itself either its own removal is still
     ahead or the entry is gone *)
  assert (FR : forall g' held' x',
            (forall b, a <> b -> p_rels g' b <> None -> p_rels (c_pg c) b <> None) ->
            (pre_rm x' \/ p_rels g' a = None) ->
            rinv (mkC g' held' (c_thr c) (nupd (c_x c) a x'))).
  { intros g' held' x' O A b Hb. simpl in *. unfold nupd. destruct (N.eqb_spec a b) as [->|Ne].
    - destruct A as [A|A]; auto; try contradiction.
    - apply R. apply O; auto. }
  (* after the removal: the state of pg is not touched by the notification steps *)
  assert (LATE : forall x', ~ pre_rm (c_x c a) -> rinv (mkC (c_pg c) (c_held c) (c_thr c) (nupd (c_x c) a x'))).
  { intros x' NP b Hb. simpl in *. destruct (R b Hb) as [Y|Y]; auto.
    unfold nupd. destruct (N.eqb_spec a b) as [->|Ne]; auto. contradiction. }
  destruct (c_x c a) eqn:XA; simpl.
  - apply FR; simpl; auto.
  - destruct (p_rels (c_pg c) a) eqn:E; simpl; apply FR; simpl; auto.
    intros b Ne Hb. unfold nupd in Hb. apply N.eqb_neq in Ne. rewrite Ne in Hb. auto.
  - destruct gmons as [|k gm]; simpl; [apply FR; simpl; auto|].
    destruct (free c k); simpl; apply FR; simpl; auto.
  - destruct wmons as [|s wm]; simpl; apply FR; simpl; auto.
  - destruct (p_rels (c_pg c) a) eqn:E; simpl; apply FR; simpl; auto.
    intros b Ne Hb. unfold nupd in Hb. apply N.eqb_neq in Ne. rewrite Ne in Hb. auto.
  - destruct todo as [|k todo]; simpl; [apply FR; simpl; auto|].
    destruct (free c k); simpl; apply FR; simpl; auto.
    intros b Ne Hb. unfold leave_one in Hb. destruct (emptied a (p_map (c_pg c) k)); exact Hb.
  - apply FR; simpl.
    + intros b Ne Hb. rewrite remove_empty_other in Hb; auto.
    + right. apply remove_empty_none; auto. right. eauto.
  - destruct evs as [|[k lis] rest]; simpl; apply LATE; try rewrite XA; simpl; tauto.
  - apply LATE; try rewrite XA; simpl; tauto.
  - apply LATE; try rewrite XA; simpl; tauto.
  - apply LATE; try rewrite XA; simpl; tauto.
Qed.

Theorem rinv_cstep c l : cinv c -> rinv c -> rinv (cstep c l).
Proof.
  intros I P. destruct l as [t|a]; simpl.
  - destruct (nth_error (c_thr c) t) as [p|] eqn:N; auto.
    pose proof (rinv_tstep c t p I P N) as X. destruct (tstep t p c) as [p' c'] eqn:E.
    pose proof (tstep_thr t p c) as [T1 T2]. rewrite E in T1, T2. simpl in T1, T2.
    rewrite T1 in X. rewrite T1. exact X.
  - pose proof (rinv_xstep c a I P) as X. destruct (xstep a (c_x c a) c) as [x' c'] eqn:E.
    pose proof (xstep_thr a (c_x c a) c) as [T1 [T2 T3]]. rewrite E in T1, T2, T3. simpl in *.
    rewrite T2 in X. rewrite T2. exact X.
Qed.

Theorem rinv_crun calls ls : rinv (crun (cinit calls) ls).
Proof.
  unfold crun. induction ls as [|l ls IH] using rev_ind; simpl.
  - intros a H. simpl in H. congruence.
  - rewrite fold_left_app. simpl. apply rinv_cstep; auto.
    pose proof (cinv_crun calls ls) as X. unfold crun in X. exact X.
Qed.

(* P4 for every schedule: once the exit of a is finished, an actor_relations entry for a can
   exist only while some call that created it is still running (and that call removes it);
   at quiescence there is none *)
Theorem no_leak_conc calls ls a :
  let c := crun (cinit calls) ls in
  c_x c a = XDone ->
  (forall t p, nth_error (c_thr c) t = Some p -> ~ obliged p a) ->
  p_rels (c_pg c) a = None.
Proof.
  intros c XD Q. destruct (p_rels (c_pg c) a) eqn:E; auto.
  assert (X : p_rels (c_pg c) a <> None) by congruence.
  destruct (rinv_crun calls ls a X) as [Y|[t [p [N O]]]]; [fold c in Y; rewrite XD in Y; destruct Y|].
  exfalso. apply (Q t p N O).
Qed.

Corollary no_leak_quiescent calls ls a :
  let c := crun (cinit calls) ls in
  c_x c a = XDone -> (forall t p, nth_error (c_thr c) t = Some p -> p = Done) ->
  p_rels (c_pg c) a = None.
Proof.
  intros c XD Q. apply no_leak_conc; auto. intros t p N O. rewrite (Q t p N) in O. exact O.
Qed.

(* while it exists after the exit, such an entry is empty *)
Theorem late_entry_empty calls ls a :
  let c := crun (cinit calls) ls in
  c_x c a = XDone -> rel_is_empty (rel_of (c_pg c) a) = true.
Proof.
  intros c XD. apply rel_empty_late; [apply cinv_crun| |]; rewrite XD; simpl; tauto.
Qed.

(* ---------- notifications at the linearization point ---------- *)
(* join: the step that inserts the accepted actors is the step that clones the group's
   listeners; the Join for exactly these actors goes to exactly these listeners *)
Theorem join_commit_point t c k kept acc stopped :
  let joined := filter (fun a => nmem a acc) kept in
  let lis := lis_of (c_pg c) k in
  let c' := snd (tstep t (JCommit k kept acc stopped) c) in
  fst (tstep t (JCommit k kept acc stopped) c) = JS k joined lis stopped /\
  (forall a, In a (mem_of (c_pg c') k) <-> In a (mem_of (c_pg c) k) \/ In a joined) /\
  (forall c2, tstep_evs (JN k joined lis) c2 = notify_list lis true (fst k) (snd k) joined) /\
  (forall c2, tstep_evs (JW1 k joined) c2 = notify_list (world_of (c_pg c2) (fst k)) true (fst k) (snd k) joined) /\
  (forall c2, tstep_evs (JW2 k joined) c2 = notify_list (world_of (c_pg c2) WORLD) true (fst k) (snd k) joined).
Proof.
  intros joined lis c'. repeat split; auto.
  - unfold c'. simpl. fold joined. destruct (null joined); unfold mem_of, gs_of; simpl; rewrite kupd_eq; simpl;
      intros H; apply In_fold_nadd in H; exact H.
  - unfold c'. simpl. fold joined. destruct (null joined); unfold mem_of, gs_of; simpl; rewrite kupd_eq; simpl;
      intros H; apply In_fold_nadd; exact H.
Qed.

(* if every actor of the call was accepted and is still alive when the section commits, and
   the world listeners are read in that same state, these are exactly the atomic model's events *)
Theorem join_events_as_atomic g s g0 kept :
  kept <> [] -> (forall a, In a kept -> p_dead g a = false) ->
  snd (join g s g0 kept)
  = notify_list (lis_of g (s, g0)) true s g0 kept ++ notify_list (world_of g s) true s g0 kept
    ++ notify_list (world_of g WORLD) true s g0 kept.
Proof.
  intros NE AL.
  assert (E : filter (fun a => negb (p_dead g a)) kept = kept).
  { clear NE. induction kept as [|a l IH]; simpl; auto. rewrite (AL a); [|left; auto]. simpl.
    rewrite IH; auto. intros b Hb. apply AL. right; auto. }
  unfold join. rewrite E. destruct kept; [congruence|]. simpl null. cbv iota.
  unfold snd. unfold notify_world, lis_of, world_of. simpl. rewrite app_nil_r. reflexivity.
Qed.

(* leave: the final step of the entry section clones the listeners; the Leave goes to them *)
Theorem leave_commit_point t c k acts :
  fst (tstep t (LL k acts []) c) = LN k acts (lis_of (c_pg c) k) /\
  (forall c2, tstep_evs (LN k acts (lis_of (c_pg c) k)) c2 = notify_list (lis_of (c_pg c) k) false (fst k) (snd k) acts).
Proof. split; reflexivity. Qed.

(* exit: a removal event (one Leave batch) is recorded for a key exactly when the actor was
   still a member of that group when leave_all visited the entry, with the listeners of that state *)
Theorem exit_batch_point a c k todo evs :
  free c k = true ->
  fst (xstep a (XL (k :: todo) evs) c)
  = XL todo (evs ++ if nmem a (mem_of (c_pg c) k) then [(k, lis_of (c_pg c) k)] else []).
Proof. intros F. simpl. rewrite F. reflexivity. Qed.
