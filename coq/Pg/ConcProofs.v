(* Invariant of the micro-step model (Pg/Conc.v) over ALL interleavings, and the
   no-zombie theorem that follows from it. *)
From Coq Require Import List NArith Bool Lia.
From RV Require Import Pg.Model Pg.Proofs Pg.Conc.
Import ListNotations.
Local Open Scope N_scope.

(* where the exit machine of an actor stands *)
Definition pre_take_m (x : xpc) : Prop :=
  match x with XAlive | XPub | XDg _ _ | XDw _ | XL0 => True | _ => False end.
Definition pre_take_g (x : xpc) : Prop := match x with XAlive | XPub => True | _ => False end.
Definition pend_m (x : xpc) (k : key) : Prop := match x with XL todo _ => In k todo | _ => False end.
Definition pend_g (x : xpc) (k : key) : Prop := match x with XDg gm _ => In k gm | _ => False end.
Definition pend_w (x : xpc) (s : N) : Prop :=
  match x with XDg _ wm => In s wm | XDw wm => In s wm | _ => False end.

(* the entry a thread holds, and the actors it has accepted but not yet made members *)
Definition holds (p : pc) (k : key) : Prop :=
  match p with
  | JL k' _ _ _ _ _ => k' = k | JCommit k' _ _ _ => k' = k | LL k' _ _ => k' = k
  | _ => False
  end.
Definition accs (p : pc) : list N :=
  match p with JL _ _ _ _ acc _ => acc | JCommit _ _ acc _ => acc | _ => [] end.

Record cinv (c : cstate) : Prop := mkCinv {
  k_dead : forall a, p_dead (c_pg c) a = true <-> c_x c a <> XAlive;
  k_mem : forall a k, In a (mem_of (c_pg c) k) ->
          In k (r_mem (rel_of (c_pg c) a)) \/ pend_m (c_x c a) k;
  k_acc : forall t p k a, nth_error (c_thr c) t = Some p -> holds p k -> In a (accs p) ->
          In k (r_mem (rel_of (c_pg c) a)) \/ pend_m (c_x c a) k;
  k_rmem : forall a k, In k (r_mem (rel_of (c_pg c) a)) -> pre_take_m (c_x c a);
  k_lis : forall a k, In a (lis_of (c_pg c) k) ->
          In k (r_gmon (rel_of (c_pg c) a)) \/ pend_g (c_x c a) k;
  k_rgmon : forall a k, In k (r_gmon (rel_of (c_pg c) a)) -> pre_take_g (c_x c a);
  k_world : forall a s, In a (world_of (c_pg c) s) ->
          In s (r_wmon (rel_of (c_pg c) a)) \/ pend_w (c_x c a) s;
  k_rwmon : forall a s, In s (r_wmon (rel_of (c_pg c) a)) -> pre_take_g (c_x c a);
  k_held : forall t p k, nth_error (c_thr c) t = Some p -> holds p k -> c_held c k = Some t }.

(* ---------- thread list helpers ---------- *)
Lemma nth_upd_cases {A} (l : list A) t v t' p :
  nth_error (upd_nth l t v) t' = Some p ->
  (t' = t /\ p = v /\ nth_error l t <> None) \/ (t' <> t /\ nth_error l t' = Some p).
Proof.
  revert t t'. induction l as [|x l IH]; intros t t' H.
  - simpl in H. destruct t'; discriminate.
  - destruct t as [|t]; destruct t' as [|t']; simpl in *.
    + inversion H; subst. left. repeat split; auto. discriminate.
    + right. split; auto.
    + right. split; auto.
    + destruct (IH t t' H) as [[A1 [A2 A3]]|[A1 A2]]; [left|right]; repeat split; auto.
  Qed.

Lemma pc_dead_alive c a : cinv c -> p_dead (c_pg c) a = false -> c_x c a = XAlive.
Proof.
  intros I D. destruct (c_x c a) eqn:E; auto;
    assert (X : p_dead (c_pg c) a = true) by (apply (k_dead _ I); rewrite E; discriminate); congruence.
Qed.

(* ---------- frame: the accessors of the pg state and the exit machines are unchanged ---------- *)
Lemma cinv_frame c c' :
  cinv c ->
  (forall k, gs_of (c_pg c') k = gs_of (c_pg c) k) ->
  (forall s, world_of (c_pg c') s = world_of (c_pg c) s) ->
  (forall a, rel_of (c_pg c') a = rel_of (c_pg c) a) ->
  (forall a, p_dead (c_pg c') a = p_dead (c_pg c) a) ->
  c_x c' = c_x c ->
  (forall t p k, nth_error (c_thr c') t = Some p -> holds p k -> c_held c' k = Some t) ->
  (forall t p k a, nth_error (c_thr c') t = Some p -> holds p k -> In a (accs p) ->
     exists p0, nth_error (c_thr c) t = Some p0 /\ holds p0 k /\ In a (accs p0)) ->
  cinv c'.
Proof.
  intros I G W R D X H A.
  constructor; unfold mem_of, lis_of in *; intros;
    repeat rewrite G in *; repeat rewrite W in *; repeat rewrite R in *; repeat rewrite D in *;
    repeat rewrite X in *.
  - apply (k_dead _ I).
  - apply (k_mem _ I); auto.
  - destruct (A _ _ _ _ H0 H1 H2) as [p0 [A1 [A2 A3]]]. apply (k_acc _ I _ _ _ _ A1 A2 A3).
  - apply (k_rmem _ I _ _ H0).
  - apply (k_lis _ I); auto.
  - apply (k_rgmon _ I _ _ H0).
  - apply (k_world _ I); auto.
  - apply (k_rwmon _ I _ _ H0).
  - eapply H; eauto.
Qed.

Lemma frame_thr c t p p' g' held' :
  cinv c -> nth_error (c_thr c) t = Some p ->
  (forall k, gs_of g' k = gs_of (c_pg c) k) ->
  (forall s, world_of g' s = world_of (c_pg c) s) ->
  (forall a, rel_of g' a = rel_of (c_pg c) a) ->
  (forall a, p_dead g' a = p_dead (c_pg c) a) ->
  (forall k, holds p' k -> held' k = Some t) ->
  (forall t' p0 k, t' <> t -> nth_error (c_thr c) t' = Some p0 -> holds p0 k -> held' k = Some t') ->
  (forall k a, holds p' k -> In a (accs p') -> holds p k /\ In a (accs p)) ->
  cinv (mkC g' held' (upd_nth (c_thr c) t p') (c_x c)).
Proof.
  intros I N G W R D H1 H2 A. apply (cinv_frame c); auto; simpl.
  - intros t' p0 k E Hh. destruct (nth_upd_cases _ _ _ _ _ E) as [[-> [-> _]]|[Ne E']]; eauto.
  - intros t' p0 k a E Hh Ha. destruct (nth_upd_cases _ _ _ _ _ E) as [[-> [-> _]]|[Ne E']].
    + exists p. destruct (A _ _ Hh Ha). auto.
    + exists p0. auto.
Qed.

(* held-map conditions for the three kinds of steps *)
Lemma held_same c t p : cinv c -> nth_error (c_thr c) t = Some p ->
  forall t' p0 k, t' <> t -> nth_error (c_thr c) t' = Some p0 -> holds p0 k -> c_held c k = Some t'.
Proof. intros I _ t' p0 k _ E H. apply (k_held _ I _ _ _ E H). Qed.
Lemma held_release c t p k0 : cinv c -> nth_error (c_thr c) t = Some p -> holds p k0 ->
  forall t' p0 k, t' <> t -> nth_error (c_thr c) t' = Some p0 -> holds p0 k -> kupd (c_held c) k0 None k = Some t'.
Proof.
  intros I N H0 t' p0 k Ne E H. pose proof (k_held _ I _ _ _ E H) as X.
  pose proof (k_held _ I _ _ _ N H0) as Y. unfold kupd. kcase k0 k; auto. congruence.
Qed.
Lemma held_acquire c t k0 : cinv c -> free c k0 = true ->
  forall t' p0 k, t' <> t -> nth_error (c_thr c) t' = Some p0 -> holds p0 k -> kupd (c_held c) k0 (Some t) k = Some t'.
Proof.
  intros I F t' p0 k Ne E H. pose proof (k_held _ I _ _ _ E H) as X.
  unfold free in F. unfold kupd. kcase k0 k; auto. rewrite X in F. discriminate.
Qed.

Lemma gs_create g k k' : gs_of (pg_create g k) k' = gs_of g k'.
Proof. unfold gs_of at 1. simpl. unfold kupd. kcase k k'; auto. Qed.
Lemma gs_remove_empty g k k' : gs_of (pg_map g (map_remove_empty (p_map g) k)) k' = gs_of g k'.
Proof. rewrite !gs_of_ogs. simpl. apply ogs_remove_empty. Qed.
Lemma rel_create g a b : rel_of (pg_rels g (rels_create (p_rels g) a)) b = rel_of g b.
Proof. rewrite !rel_of_orel. simpl. apply orel_create. Qed.
Lemma rel_remove_empty g a b : rel_of (pg_rels g (rels_remove_empty (p_rels g) a)) b = rel_of g b.
Proof. rewrite !rel_of_orel. simpl. apply orel_remove_empty. Qed.

(* ---------- the effect steps of API threads ---------- *)
Ltac thr_cases E := let Ne := fresh "Ne" in let E' := fresh "E'" in
  destruct (nth_upd_cases _ _ _ _ _ E) as [[-> [-> _]]|[Ne E']].

(* join: locked re-check succeeded for actor a *)
Lemma cinv_JL_alive c t k kept a todo seen acc stopped :
  cinv c -> nth_error (c_thr c) t = Some (JL k kept (a :: todo) seen acc stopped) ->
  p_dead (c_pg c) a = false ->
  let g := c_pg c in let rs := rels_create (p_rels g) a in
  cinv (mkC (pg_rels g (nupd rs a (Some (rel_add_mem k (rel_get rs a))))) (c_held c)
            (upd_nth (c_thr c) t (JL k kept todo (a :: seen) (a :: acc) stopped)) (c_x c)).
Proof.
  intros I N D g rs.
  assert (HR : forall b, rel_of (pg_rels g (nupd rs a (Some (rel_add_mem k (rel_get rs a))))) b
                         = if N.eqb a b then rel_add_mem k (rel_of g a) else rel_of g b).
  { intros b. rewrite rel_of_orel. simpl. unfold nupd. ncase a b; simpl.
    - unfold rel_get. change (rel_add_mem k (orel (rels_create (p_rels g) b b)) = rel_add_mem k (rel_of g b)).
      rewrite orel_create. auto.
    - unfold rs. rewrite orel_create. auto. }
  assert (XA := pc_dead_alive _ _ I D).
  constructor; simpl; intros; try rewrite HR.
  - apply (k_dead _ I).
  - destruct (k_mem _ I a0 k0 H) as [X|X]; auto. left. ncase a a0; simpl; auto. apply In_kadd; auto.
  - thr_cases H.
    + simpl in H0. subst k0. simpl in H1. destruct H1 as [<-|H1].
      * left. rewrite N.eqb_refl. simpl. apply In_kadd; auto.
      * destruct (k_acc _ I _ _ k a0 N eq_refl H1) as [X|X]; auto. left.
        ncase a a0; simpl; auto. apply In_kadd; auto.
    + destruct (k_acc _ I _ _ _ _ E' H0 H1) as [X|X]; auto. left. ncase a a0; simpl; auto. apply In_kadd; auto.
  - rewrite HR in H. ncase a a0; simpl in H.
    + rewrite XA. simpl. auto.
    + apply (k_rmem _ I _ _ H).
  - destruct (k_lis _ I a0 k0 H) as [X|X]; auto. left. ncase a a0; simpl; auto.
  - rewrite HR in H. ncase a a0; simpl in H; apply (k_rgmon _ I _ _ H).
  - destruct (k_world _ I a0 s H) as [X|X]; auto. left. ncase a a0; simpl; auto.
  - rewrite HR in H. ncase a a0; simpl in H; apply (k_rwmon _ I _ _ H).
  - thr_cases H.
    + simpl in H0. subst. apply (k_held _ I _ _ _ N). simpl. auto.
    + apply (k_held _ I _ _ _ E' H0).
Qed.

(* join: members.insert for the accepted actors, index, release *)
Lemma cinv_JCommit c t k kept acc stopped :
  cinv c -> nth_error (c_thr c) t = Some (JCommit k kept acc stopped) ->
  let g := c_pg c in
  let joined := filter (fun a => nmem a acc) kept in
  let gs := gs_of g k in
  let mem' := fold_left (fun m a => nadd a m) joined (g_mem gs) in
  let g1 := pg_map g (kupd (p_map g) k (Some (mkG mem' (g_lis gs)))) in
  let g2 := if null joined then g1 else pg_index g1 (index_add (p_index g1) (fst k) (snd k)) in
  cinv (mkC g2 (kupd (c_held c) k None) (upd_nth (c_thr c) t (JS k joined (g_lis gs) stopped)) (c_x c)).
Proof.
  intros I N g joined gs mem' g1 g2.
  assert (HM : forall k', mem_of g2 k' = if keqb k k' then mem' else mem_of g k').
  { intros k'. unfold g2. destruct (null joined); unfold mem_of, gs_of; simpl; unfold kupd; destruct (keqb k k'); auto. }
  assert (HL : forall k', lis_of g2 k' = lis_of g k').
  { intros k'. unfold g2. destruct (null joined); unfold lis_of, gs_of; simpl; unfold kupd; kcase k k'; auto. }
  assert (HW : forall s, world_of g2 s = world_of g s) by (intros; unfold g2; destruct (null joined); auto).
  assert (HR : forall b, rel_of g2 b = rel_of g b) by (intros; unfold g2; destruct (null joined); auto).
  assert (HD : forall b, p_dead g2 b = p_dead g b) by (intros; unfold g2; destruct (null joined); auto).
  constructor; simpl; intros; try rewrite HR; try rewrite HD.
  - apply (k_dead _ I).
  - rewrite HM in H. kcase k k0; [|apply (k_mem _ I); auto].
    unfold mem' in H. apply In_fold_nadd in H. destruct H as [H|H].
    + apply (k_mem _ I); auto.
    + unfold joined in H. apply filter_In in H. destruct H as [_ H]. apply nmem_In in H.
      apply (k_acc _ I _ _ k0 a N); simpl; auto.
  - thr_cases H; [simpl in H0; tauto|]. apply (k_acc _ I _ _ _ _ E' H0 H1).
  - rewrite HR in H. apply (k_rmem _ I _ _ H).
  - rewrite HL in H. apply (k_lis _ I); auto.
  - rewrite HR in H. apply (k_rgmon _ I _ _ H).
  - rewrite HW in H. apply (k_world _ I); auto.
  - rewrite HR in H. apply (k_rwmon _ I _ _ H).
  - thr_cases H; [simpl in H0; tauto|].
    apply (held_release c t _ k I N eq_refl t0 p k0 Ne E' H0).
Qed.

(* leave: one actor removed inside the held entry *)
Lemma cinv_LL_cons c t k acts a todo :
  cinv c -> nth_error (c_thr c) t = Some (LL k acts (a :: todo)) ->
  let g := c_pg c in let gs := gs_of g k in
  cinv (mkC (pg_rels (pg_map g (kupd (p_map g) k (Some (mkG (nrem a (g_mem gs)) (g_lis gs)))))
                     (nupd (p_rels g) a (option_map (rel_rem_mem k) (p_rels g a))))
            (c_held c) (upd_nth (c_thr c) t (LL k acts todo)) (c_x c)).
Proof.
  intros I N g gs.
  set (g' := pg_rels (pg_map g (kupd (p_map g) k (Some (mkG (nrem a (g_mem gs)) (g_lis gs)))))
                     (nupd (p_rels g) a (option_map (rel_rem_mem k) (p_rels g a)))).
  assert (HM : forall k', mem_of g' k' = if keqb k k' then nrem a (mem_of g k) else mem_of g k').
  { intros k'. unfold mem_of, gs_of; simpl; unfold kupd; destruct (keqb k k'); auto. }
  assert (HL : forall k', lis_of g' k' = lis_of g k').
  { intros k'. unfold lis_of, gs_of; simpl; unfold kupd; kcase k k'; auto. }
  assert (HR : forall b, rel_of g' b = if N.eqb a b then rel_rem_mem k (rel_of g a) else rel_of g b).
  { intros b. rewrite rel_of_orel. simpl. unfold nupd. ncase a b; auto. rewrite orel_map; auto. }
  (* no other thread has accepted an actor for k: this thread holds k *)
  assert (Hk := k_held _ I _ _ k N eq_refl).
  constructor; simpl; intros; try rewrite HR.
  - apply (k_dead _ I).
  - rewrite HM in H. kcase k k0.
    + apply In_nrem in H. destruct H as [H Ne]. destruct (k_mem _ I a0 k0 H) as [X|X]; auto.
      left. ncase a a0; [congruence|auto].
    + destruct (k_mem _ I a0 k0 H) as [X|X]; auto. left. ncase a a0; simpl; auto.
      apply In_krem. split; auto.
  - thr_cases H; [simpl in H1; tauto|].
    destruct (k_acc _ I _ _ _ _ E' H0 H1) as [X|X]; auto. left.
    ncase a a0; simpl; auto. apply In_krem. split; auto.
    intros ->. pose proof (k_held _ I _ _ _ E' H0). congruence.
  - rewrite HR in H. ncase a a0; simpl in H; [apply In_krem in H; destruct H as [H _]|]; apply (k_rmem _ I _ _ H).
  - rewrite HL in H. destruct (k_lis _ I a0 k0 H) as [X|X]; auto. left. ncase a a0; simpl; auto.
  - rewrite HR in H. ncase a a0; simpl in H; apply (k_rgmon _ I _ _ H).
  - destruct (k_world _ I a0 s H) as [X|X]; auto. left. ncase a a0; simpl; auto.
  - rewrite HR in H. ncase a a0; simpl in H; apply (k_rwmon _ I _ _ H).
  - thr_cases H.
    + simpl in H0. subst. auto.
    + apply (k_held _ I _ _ _ E' H0).
Qed.

Lemma cinv_M1_alive c t gr a :
  cinv c -> nth_error (c_thr c) t = Some (M1 gr a) -> p_dead (c_pg c) a = false ->
  let g := c_pg c in let k := (DEFAULT, gr) in let g1 := pg_create g k in
  let rs := rels_create (p_rels g) a in
  cinv (mkC (pg_rels (pg_map g1 (kupd (p_map g1) k (Some (mkG (mem_of g k) (nadd a (lis_of g k))))))
                     (nupd rs a (Some (rel_add_gmon k (rel_get rs a)))))
            (c_held c) (upd_nth (c_thr c) t (M3 gr a)) (c_x c)).
Proof.
  intros I N D g k g1 rs.
  set (g' := pg_rels (pg_map g1 (kupd (p_map g1) k (Some (mkG (mem_of g k) (nadd a (lis_of g k))))))
                     (nupd rs a (Some (rel_add_gmon k (rel_get rs a))))).
  assert (HM : forall k', mem_of g' k' = mem_of g k').
  { intros k'. unfold mem_of at 1. unfold gs_of; simpl; unfold kupd. kcase k k'; auto. }
  assert (HL : forall k', lis_of g' k' = if keqb k k' then nadd a (lis_of g k) else lis_of g k').
  { intros k'. unfold lis_of at 1. unfold gs_of; simpl; unfold kupd. destruct (keqb k k') eqn:E; auto; try (rewrite E; auto). }
  assert (HR : forall b, rel_of g' b = if N.eqb a b then rel_add_gmon k (rel_of g a) else rel_of g b).
  { intros b. rewrite rel_of_orel. simpl. unfold nupd. ncase a b; simpl.
    - unfold rel_get. change (rel_add_gmon k (orel (rels_create (p_rels g) b b)) = rel_add_gmon k (rel_of g b)).
      rewrite orel_create. auto.
    - unfold rs. rewrite orel_create. auto. }
  assert (XA := pc_dead_alive _ _ I D).
  constructor; simpl; intros.
  - apply (k_dead _ I).
  - rewrite HM in H. rewrite HR. destruct (k_mem _ I a0 k0 H) as [X|X]; auto. left. ncase a a0; simpl; auto.
  - thr_cases H; [simpl in H0; tauto|]. rewrite HR.
    destruct (k_acc _ I _ _ _ _ E' H0 H1) as [X|X]; auto. left. ncase a a0; simpl; auto.
  - rewrite HR in H. ncase a a0; simpl in H; apply (k_rmem _ I _ _ H).
  - rewrite HL in H. rewrite HR. kcase k k0.
    + apply In_nadd in H. destruct H as [->|H].
      * left. rewrite N.eqb_refl. simpl. apply In_kadd; auto.
      * destruct (k_lis _ I a0 _ H) as [X|X]; auto. left. ncase a a0; simpl; auto. apply In_kadd; auto.
    + destruct (k_lis _ I a0 _ H) as [X|X]; auto. left. ncase a a0; simpl; auto. apply In_kadd; auto.
  - rewrite HR in H. ncase a a0; simpl in H.
    + apply In_kadd in H. destruct H as [->|H]; [rewrite XA; simpl; auto|apply (k_rgmon _ I _ _ H)].
    + apply (k_rgmon _ I _ _ H).
  - rewrite HR. destruct (k_world _ I a0 s H) as [X|X]; auto. left. ncase a a0; simpl; auto.
  - rewrite HR in H. ncase a a0; simpl in H; apply (k_rwmon _ I _ _ H).
  - thr_cases H; [simpl in H0; tauto|]. apply (k_held _ I _ _ _ E' H0).
Qed.

Lemma cinv_S1_alive c t s a :
  cinv c -> nth_error (c_thr c) t = Some (S1 s a) -> p_dead (c_pg c) a = false ->
  let g := c_pg c in let rs := rels_create (p_rels g) a in
  cinv (mkC (pg_rels (pg_world g (nupd (p_world g) s (Some (nadd a (world_of g s)))))
                     (nupd rs a (Some (rel_add_wmon s (rel_get rs a)))))
            (c_held c) (upd_nth (c_thr c) t (S3 s a)) (c_x c)).
Proof.
  intros I N D g rs.
  set (g' := pg_rels (pg_world g (nupd (p_world g) s (Some (nadd a (world_of g s)))))
                     (nupd rs a (Some (rel_add_wmon s (rel_get rs a))))).
  assert (HW : forall s', world_of g' s' = if N.eqb s s' then nadd a (world_of g s) else world_of g s').
  { intros s'. unfold world_of at 1. simpl. unfold nupd. destruct (N.eqb s s'); auto. }
  assert (HR : forall b, rel_of g' b = if N.eqb a b then rel_add_wmon s (rel_of g a) else rel_of g b).
  { intros b. rewrite rel_of_orel. simpl. unfold nupd. ncase a b; simpl.
    - unfold rel_get. change (rel_add_wmon s (orel (rels_create (p_rels g) b b)) = rel_add_wmon s (rel_of g b)).
      rewrite orel_create. auto.
    - unfold rs. rewrite orel_create. auto. }
  assert (XA := pc_dead_alive _ _ I D).
  constructor; simpl; intros.
  - apply (k_dead _ I).
  - rewrite HR. destruct (k_mem _ I a0 k H) as [X|X]; auto. left. ncase a a0; simpl; auto.
  - thr_cases H; [simpl in H0; tauto|]. rewrite HR.
    destruct (k_acc _ I _ _ _ _ E' H0 H1) as [X|X]; auto. left. ncase a a0; simpl; auto.
  - rewrite HR in H. ncase a a0; simpl in H; apply (k_rmem _ I _ _ H).
  - rewrite HR. destruct (k_lis _ I a0 k H) as [X|X]; auto. left. ncase a a0; simpl; auto.
  - rewrite HR in H. ncase a a0; simpl in H; apply (k_rgmon _ I _ _ H).
  - rewrite HW in H. rewrite HR. ncase s s0.
    + apply In_nadd in H. destruct H as [->|H].
      * left. rewrite N.eqb_refl. simpl. apply In_nadd; auto.
      * destruct (k_world _ I a0 _ H) as [X|X]; auto. left. ncase a a0; simpl; auto. apply In_nadd; auto.
    + destruct (k_world _ I a0 _ H) as [X|X]; auto. left. ncase a a0; simpl; auto. apply In_nadd; auto.
  - rewrite HR in H. ncase a a0; simpl in H.
    + apply In_nadd in H. destruct H as [->|H]; [rewrite XA; simpl; auto|apply (k_rwmon _ I _ _ H)].
    + apply (k_rwmon _ I _ _ H).
  - thr_cases H; [simpl in H0; tauto|]. apply (k_held _ I _ _ _ E' H0).
Qed.

Ltac hadcase had a a0 H := let E := fresh "E" in
  destruct (had && N.eqb a a0) eqn:E;
  [apply andb_true_iff in E; destruct E as [_ E]; apply N.eqb_eq in E; subst; simpl; try (simpl in H)|]; auto.

Lemma cinv_D1 c t gr a had :
  cinv c -> nth_error (c_thr c) t = Some (D1 gr a had) ->
  let g := c_pg c in let k := (DEFAULT, gr) in
  let rels' := if had then nupd (p_rels g) a (option_map (rel_rem_gmon k) (p_rels g a)) else p_rels g in
  let g' := match p_map g k with
            | Some gs => pg_rels (pg_map g (kupd (p_map g) k (norm_entry (g_mem gs) (nrem a (g_lis gs))))) rels'
            | None => pg_rels g rels' end in
  cinv (mkC g' (c_held c) (upd_nth (c_thr c) t Done) (c_x c)).
Proof.
  intros I N g k rels' g'.
  assert (HG : forall k', gs_of g' k' = if keqb k k' then mkG (mem_of g k) (nrem a (lis_of g k)) else gs_of g k').
  { intros k'. unfold g'. destruct (p_map g k) as [gs|] eqn:E.
    - rewrite gs_of_ogs. simpl. unfold kupd. kcase k k'; auto. rewrite ogs_norm.
      unfold mem_of, lis_of, gs_of. rewrite E. auto.
    - kcase k k'; auto. unfold mem_of, lis_of, gs_of. simpl. rewrite E. auto. }
  assert (HW : forall s, world_of g' s = world_of g s).
  { intros. unfold g'. destruct (p_map g k); auto. }
  assert (HD : forall b, p_dead g' b = p_dead g b).
  { intros. unfold g'. destruct (p_map g k); auto. }
  assert (HR : forall b, rel_of g' b = if had && N.eqb a b then rel_rem_gmon k (rel_of g a) else rel_of g b).
  { intros b. assert (X : rel_of g' b = orel (rels' b)) by (unfold g'; destruct (p_map g k); auto).
    rewrite X. unfold rels'. destruct had; simpl; auto. unfold nupd. ncase a b; auto. rewrite orel_map; auto. }
  constructor; simpl; intros; try rewrite HD.
  - apply (k_dead _ I).
  - unfold mem_of in H. rewrite HG in H. rewrite HR.
    assert (H' : In a0 (mem_of g k0)) by (kcase k k0; auto).
    destruct (k_mem _ I a0 k0 H') as [X|X]; auto. left. hadcase had a a0 X.
  - thr_cases H; [simpl in H0; tauto|]. rewrite HR.
    destruct (k_acc _ I _ _ _ _ E' H0 H1) as [X|X]; auto. left. hadcase had a a0 X.
  - rewrite HR in H. hadcase had a a0 H; apply (k_rmem _ I _ _ H).
  - unfold lis_of in H. rewrite HG in H. rewrite HR. kcase k k0.
    + simpl in H. apply In_nrem in H. destruct H as [H Ne].
      destruct (k_lis _ I a0 _ H) as [X|X]; auto. left.
      assert (E : N.eqb a a0 = false) by (apply N.eqb_neq; congruence). rewrite E, andb_false_r. auto.
    + destruct (k_lis _ I a0 _ H) as [X|X]; auto. left.
      destruct (had && N.eqb a a0) eqn:E; auto. apply andb_true_iff in E. destruct E as [_ E].
      apply N.eqb_eq in E. subst. simpl. apply In_krem. split; auto.
  - rewrite HR in H. destruct (had && N.eqb a a0) eqn:E.
    + apply andb_true_iff in E. destruct E as [_ E]. apply N.eqb_eq in E. subst. simpl in H.
      apply In_krem in H. destruct H as [H _]. apply (k_rgmon _ I _ _ H).
    + apply (k_rgmon _ I _ _ H).
  - rewrite HW in H. rewrite HR. destruct (k_world _ I a0 s H) as [X|X]; auto. left.
    hadcase had a a0 X.
  - rewrite HR in H. hadcase had a a0 H; apply (k_rwmon _ I _ _ H).
  - thr_cases H; [simpl in H0; tauto|]. apply (k_held _ I _ _ _ E' H0).
Qed.

Lemma cinv_DS1 c t s a had :
  cinv c -> nth_error (c_thr c) t = Some (DS1 s a had) ->
  let g := c_pg c in
  let rels' := if had then nupd (p_rels g) a (option_map (rel_rem_wmon s) (p_rels g a)) else p_rels g in
  let g' := match p_world g s with
            | Some ls => pg_rels (pg_world g (nupd (p_world g) s (norm_list (nrem a ls)))) rels'
            | None => pg_rels g rels' end in
  cinv (mkC g' (c_held c) (upd_nth (c_thr c) t Done) (c_x c)).
Proof.
  intros I N g rels' g'.
  assert (HG : forall k', gs_of g' k' = gs_of g k') by (intros; unfold g'; destruct (p_world g s); auto).
  assert (HW : forall s', world_of g' s' = if N.eqb s s' then nrem a (world_of g s) else world_of g s').
  { intros s'. unfold g'. destruct (p_world g s) as [ls|] eqn:E.
    - rewrite world_of_olist. simpl. unfold nupd. ncase s s'; auto. rewrite olist_norm.
      unfold world_of. rewrite E. auto.
    - ncase s s'; auto. unfold world_of. simpl. rewrite E. auto. }
  assert (HD : forall b, p_dead g' b = p_dead g b) by (intros; unfold g'; destruct (p_world g s); auto).
  assert (HR : forall b, rel_of g' b = if had && N.eqb a b then rel_rem_wmon s (rel_of g a) else rel_of g b).
  { intros b. assert (X : rel_of g' b = orel (rels' b)) by (unfold g'; destruct (p_world g s); auto).
    rewrite X. unfold rels'. destruct had; simpl; auto. unfold nupd. ncase a b; auto. rewrite orel_map; auto. }
  constructor; simpl; intros; try rewrite HD.
  - apply (k_dead _ I).
  - unfold mem_of in H. rewrite HG in H. rewrite HR.
    destruct (k_mem _ I a0 k H) as [X|X]; auto. left. hadcase had a a0 X.
  - thr_cases H; [simpl in H0; tauto|]. rewrite HR.
    destruct (k_acc _ I _ _ _ _ E' H0 H1) as [X|X]; auto. left. hadcase had a a0 X.
  - rewrite HR in H. hadcase had a a0 H; apply (k_rmem _ I _ _ H).
  - unfold lis_of in H. rewrite HG in H. rewrite HR.
    destruct (k_lis _ I a0 _ H) as [X|X]; auto. left. hadcase had a a0 X.
  - rewrite HR in H. hadcase had a a0 H; apply (k_rgmon _ I _ _ H).
  - rewrite HW in H. rewrite HR. ncase s s0.
    + apply In_nrem in H. destruct H as [H Ne].
      destruct (k_world _ I a0 _ H) as [X|X]; auto. left.
      assert (E : N.eqb a a0 = false) by (apply N.eqb_neq; congruence). rewrite E, andb_false_r. auto.
    + destruct (k_world _ I a0 _ H) as [X|X]; auto. left.
      destruct (had && N.eqb a a0) eqn:E; auto. apply andb_true_iff in E. destruct E as [_ E].
      apply N.eqb_eq in E. subst. simpl. apply In_nrem. split; auto.
  - rewrite HR in H. destruct (had && N.eqb a a0) eqn:E.
    + apply andb_true_iff in E. destruct E as [_ E]. apply N.eqb_eq in E. subst. simpl in H.
      apply In_nrem in H. destruct H as [H _]. apply (k_rwmon _ I _ _ H).
    + apply (k_rwmon _ I _ _ H).
  - thr_cases H; [simpl in H0; tauto|]. apply (k_held _ I _ _ _ E' H0).
Qed.

(* ---------- every thread step preserves the invariant ---------- *)
Lemma free_true c k : free c k = true -> c_held c k = None.
Proof. unfold free. destruct (c_held c k); congruence. Qed.

Lemma cinv_tstep c t p : cinv c -> nth_error (c_thr c) t = Some p ->
  cinv (let (p', c') := tstep t p c in mkC (c_pg c') (c_held c') (upd_nth (c_thr c') t p') (c_x c')).
Proof.
  intros I N.
  assert (HS := held_same c t p I N).
  destruct p; simpl.
  - (* JF *) destruct todo as [|a todo]; [destruct (null kept)|]; simpl;
      apply (frame_thr c t _ _ _ _ I N); auto; simpl; tauto.
  - (* JAcq *) destruct (free c k) eqn:F; simpl.
    + apply (frame_thr c t _ _ _ _ I N); auto; simpl.
      * intros. apply gs_create.
      * intros k' <-. apply kupd_eq.
      * apply held_acquire; auto.
    + apply (frame_thr c t _ _ _ _ I N); auto; simpl; tauto.
  - (* JL *)
    assert (HK : forall k', k = k' -> c_held c k' = Some t).
    { intros k' <-. apply (k_held _ I _ _ _ N). simpl; auto. }
    destruct todo as [|a todo]; simpl.
    + apply (frame_thr c t _ _ _ _ I N); auto; simpl; auto.
    + destruct (nmem a seen); simpl.
      * apply (frame_thr c t _ _ _ _ I N); auto; simpl; auto.
      * destruct (p_dead (c_pg c) a) eqn:D; simpl.
        -- apply (frame_thr c t _ _ _ _ I N); auto; simpl; auto.
           intros. apply rel_create.
        -- apply cinv_JL_alive; auto.
  - (* JCommit *) apply cinv_JCommit; auto.
  - (* JS *) destruct stopped as [|a stopped]; [destruct (null joined)|]; simpl;
      apply (frame_thr c t _ _ _ _ I N); auto; simpl; try tauto.
    intros. apply rel_remove_empty.
  - (* JEmpty *) destruct (free c k); simpl; apply (frame_thr c t _ _ _ _ I N); auto; simpl; try tauto.
    intros. apply gs_remove_empty.
  - (* LAcq *) destruct (free c k) eqn:F; simpl; [destruct (p_map (c_pg c) k)|]; simpl;
      apply (frame_thr c t _ _ _ _ I N); auto; simpl; try tauto.
    + intros k' <-. apply kupd_eq.
    + apply held_acquire; auto.
  - (* LL *) destruct todo as [|a todo]; simpl.
    + set (g := c_pg c). set (gs := gs_of g k).
      set (g1 := if null (g_mem gs) then pg_index g (index_rem (p_index g) (fst k) (snd k)) else g).
      apply (frame_thr c t _ _ _ _ I N); simpl; try tauto.
      * intros k'. rewrite gs_of_ogs. simpl.
        assert (E : p_map g1 = p_map g) by (unfold g1; destruct (null (g_mem gs)); auto). rewrite E.
        unfold kupd. kcase k k'; auto. rewrite ogs_norm. subst gs g. destruct (gs_of (c_pg c) k'); reflexivity.
      * intros. unfold g1. destruct (null (g_mem gs)); auto.
      * intros. unfold g1. destruct (null (g_mem gs)); auto.
      * intros. unfold g1. destruct (null (g_mem gs)); auto.
      * apply (held_release c t _ k I N). simpl; auto.
    + apply cinv_LL_cons; auto.
  - (* M0 *) apply (frame_thr c t _ _ _ _ I N); auto; simpl; try tauto. intros. apply rel_create.
  - (* M1 *) destruct (free c (DEFAULT, g)) eqn:F; simpl.
    + destruct (p_dead (c_pg c) a) eqn:D; simpl.
      * apply (frame_thr c t _ _ _ _ I N); auto; simpl; try tauto. intros. apply gs_create.
      * apply cinv_M1_alive; auto.
    + apply (frame_thr c t _ _ _ _ I N); auto; simpl; tauto.
  - (* M3 *) destruct (p_dead (c_pg c) a); simpl; apply (frame_thr c t _ _ _ _ I N); auto; simpl; tauto.
  - (* M4 *) destruct (free c (DEFAULT, g)); simpl; apply (frame_thr c t _ _ _ _ I N); auto; simpl; try tauto.
    intros. apply gs_remove_empty.
  - (* M5 *) apply (frame_thr c t _ _ _ _ I N); auto; simpl; try tauto. intros. apply rel_remove_empty.
  - (* S0 *) apply (frame_thr c t _ _ _ _ I N); auto; simpl; try tauto. intros. apply rel_create.
  - (* S1 *) destruct (p_dead (c_pg c) a) eqn:D; simpl.
    + apply (frame_thr c t _ _ _ _ I N); auto; simpl; try tauto.
      intros s'. unfold world_of at 1. simpl. unfold nupd. ncase s s'; auto.
    + apply cinv_S1_alive; auto.
  - (* S3 *) destruct (p_dead (c_pg c) a); simpl; apply (frame_thr c t _ _ _ _ I N); auto; simpl; tauto.
  - (* S4 *) apply (frame_thr c t _ _ _ _ I N); auto; simpl; try tauto.
    intros s'. rewrite !world_of_olist. simpl. apply olist_world_remove_empty.
  - (* D0 *) apply (frame_thr c t _ _ _ _ I N); auto; simpl; tauto.
  - (* D1 *) destruct (free c (DEFAULT, g)); simpl.
    + pose proof (cinv_D1 c t g a had I N) as X. simpl in X.
      destruct (p_map (c_pg c) (DEFAULT, g)); exact X.
    + apply (frame_thr c t _ _ _ _ I N); auto; simpl; tauto.
  - (* DS0 *) apply (frame_thr c t _ _ _ _ I N); auto; simpl; tauto.
  - (* DS1 *) pose proof (cinv_DS1 c t s a had I N) as X. simpl in X.
    destruct (p_world (c_pg c) s); exact X.
  - apply (frame_thr c t _ _ _ _ I N); auto; simpl; tauto.
  - apply (frame_thr c t _ _ _ _ I N); auto; simpl; tauto.
  - apply (frame_thr c t _ _ _ _ I N); auto; simpl; tauto.
  - apply (frame_thr c t _ _ _ _ I N); auto; simpl; tauto.
  - apply (frame_thr c t _ _ _ _ I N); auto; simpl; tauto.
  - apply (frame_thr c t _ _ _ _ I N); auto; simpl; tauto.
  - (* Done *) apply (frame_thr c t _ _ _ _ I N); auto; simpl; tauto.
Qed.

(* ---------- the exit machine ---------- *)
Lemma xframe c a x' g' :
  cinv c ->
  (forall k, gs_of g' k = gs_of (c_pg c) k) ->
  (forall s, world_of g' s = world_of (c_pg c) s) ->
  (forall b, rel_of g' b = rel_of (c_pg c) b) ->
  (forall b, p_dead g' b = p_dead (c_pg c) b) ->
  c_x c a <> XAlive -> x' <> XAlive ->
  (forall k, pend_m (c_x c a) k -> pend_m x' k) ->
  (forall k, pend_g (c_x c a) k -> pend_g x' k) ->
  (forall s, pend_w (c_x c a) s -> pend_w x' s) ->
  (forall k, In k (r_mem (rel_of (c_pg c) a)) -> pre_take_m x') ->
  (forall k, In k (r_gmon (rel_of (c_pg c) a)) -> pre_take_g x') ->
  (forall s, In s (r_wmon (rel_of (c_pg c) a)) -> pre_take_g x') ->
  cinv (mkC g' (c_held c) (c_thr c) (nupd (c_x c) a x')).
Proof.
  intros I G W R D XA XA' PM PG PW TM TG TW.
  constructor; simpl; unfold mem_of, lis_of; intros; repeat rewrite G in *; repeat rewrite W in *;
    repeat rewrite R in *; repeat rewrite D in *; unfold nupd.
  - ncase a a0; [|apply (k_dead _ I)]. split; intros; auto. apply (k_dead _ I); auto.
  - destruct (k_mem _ I a0 k H) as [X|X]; auto. right. ncase a a0; auto.
  - destruct (k_acc _ I _ _ _ _ H H0 H1) as [X|X]; auto. right. ncase a a0; auto.
  - ncase a a0; [eapply TM; eauto|apply (k_rmem _ I _ _ H)].
  - destruct (k_lis _ I a0 k H) as [X|X]; auto. right. ncase a a0; auto.
  - ncase a a0; [eapply TG; eauto|apply (k_rgmon _ I _ _ H)].
  - destruct (k_world _ I a0 s H) as [X|X]; auto. right. ncase a a0; auto.
  - ncase a a0; [eapply TW; eauto|apply (k_rwmon _ I _ _ H)].
  - apply (k_held _ I _ _ _ H H0).
Qed.

Lemma cinv_XAlive c a : cinv c -> c_x c a = XAlive ->
  cinv (mkC (pg_setdead (c_pg c) a) (c_held c) (c_thr c) (nupd (c_x c) a XPub)).
Proof.
  intros I XA.
  constructor; simpl; unfold nupd; intros.
  - ncase a a0; [split; intros; [discriminate|auto]|apply (k_dead _ I)].
  - destruct (k_mem _ I a0 k H) as [X|X]; auto. ncase a a0; auto. rewrite XA in X. destruct X.
  - destruct (k_acc _ I _ _ _ _ H H0 H1) as [X|X]; auto. ncase a a0; auto. rewrite XA in X. destruct X.
  - ncase a a0; [simpl; auto|apply (k_rmem _ I _ _ H)].
  - destruct (k_lis _ I a0 k H) as [X|X]; auto. ncase a a0; auto. rewrite XA in X. destruct X.
  - ncase a a0; [simpl; auto|apply (k_rgmon _ I _ _ H)].
  - destruct (k_world _ I a0 s H) as [X|X]; auto. ncase a a0; auto. rewrite XA in X. destruct X.
  - ncase a a0; [simpl; auto|apply (k_rwmon _ I _ _ H)].
  - apply (k_held _ I _ _ _ H H0).
Qed.

Lemma cinv_XPub_some c a r : cinv c -> c_x c a = XPub -> p_rels (c_pg c) a = Some r ->
  cinv (mkC (pg_rels (c_pg c) (nupd (p_rels (c_pg c)) a (Some (mkR (r_mem r) [] []))))
            (c_held c) (c_thr c) (nupd (c_x c) a (XDg (r_gmon r) (r_wmon r)))).
Proof.
  intros I XA R. set (g := c_pg c).
  assert (Ra : rel_of g a = r) by (unfold rel_of, g; rewrite R; auto).
  assert (HR : forall b, rel_of (pg_rels g (nupd (p_rels g) a (Some (mkR (r_mem r) [] [])))) b
                         = if N.eqb a b then mkR (r_mem r) [] [] else rel_of g b).
  { intros b. rewrite rel_of_orel. simpl. unfold nupd. ncase a b; auto. }
  constructor; simpl; unfold nupd; intros; try rewrite HR.
  - ncase a a0; [|apply (k_dead _ I)]. split; intros; [discriminate|]. apply (k_dead _ I). rewrite XA. discriminate.
  - destruct (k_mem _ I a0 k H) as [X|X]; ncase a a0; auto;
      try (rewrite XA in X; destruct X); try (left; simpl; auto).
  - destruct (k_acc _ I _ _ _ _ H H0 H1) as [X|X]; ncase a a0; auto;
      try (rewrite XA in X; destruct X); try (left; simpl; auto).
  - rewrite HR in H. ncase a a0; [simpl; auto|apply (k_rmem _ I _ _ H)].
  - destruct (k_lis _ I a0 k H) as [X|X]; ncase a a0; auto;
      try (rewrite XA in X; destruct X); try (right; simpl; auto).
  - rewrite HR in H. ncase a a0; [simpl in H; destruct H|apply (k_rgmon _ I _ _ H)].
  - destruct (k_world _ I a0 s H) as [X|X]; ncase a a0; auto;
      try (rewrite XA in X; destruct X); try (right; simpl; auto).
  - rewrite HR in H. ncase a a0; [simpl in H; destruct H|apply (k_rwmon _ I _ _ H)].
  - apply (k_held _ I _ _ _ H H0).
Qed.

Lemma cinv_XDg_cons c a k gm wm : cinv c -> c_x c a = XDg (k :: gm) wm ->
  cinv (mkC (pg_map (c_pg c) (kupd (p_map (c_pg c)) k (gclean a (p_map (c_pg c) k))))
            (c_held c) (c_thr c) (nupd (c_x c) a (XDg gm wm))).
Proof.
  intros I XA. set (g := c_pg c).
  set (g' := pg_map g (kupd (p_map g) k (gclean a (p_map g k)))).
  assert (HG : forall k', gs_of g' k' = if keqb k k' then mkG (mem_of g k) (nrem a (lis_of g k)) else gs_of g k').
  { intros k'. rewrite gs_of_ogs. simpl. unfold kupd. kcase k k'; auto. rewrite ogs_gclean. reflexivity. }
  constructor; simpl; unfold nupd; intros.
  - ncase a a0; [|apply (k_dead _ I)]. split; intros; [discriminate|]. apply (k_dead _ I). rewrite XA. discriminate.
  - unfold mem_of in H. rewrite HG in H.
    assert (H' : In a0 (mem_of g k0)) by (kcase k k0; auto).
    destruct (k_mem _ I a0 k0 H') as [X|X]; auto. ncase a a0; auto. rewrite XA in X. destruct X.
  - destruct (k_acc _ I _ _ _ _ H H0 H1) as [X|X]; auto. ncase a a0; auto. rewrite XA in X. destruct X.
  - ncase a a0; [simpl; auto|apply (k_rmem _ I _ _ H)].
  - unfold lis_of in H. rewrite HG in H. kcase k k0.
    + simpl in H. apply In_nrem in H. destruct H as [H Ne].
      destruct (k_lis _ I a0 _ H) as [X|X]; auto. ncase a a0; [congruence|auto].
    + destruct (k_lis _ I a0 _ H) as [X|X]; auto. ncase a a0; auto.
      rewrite XA in X. simpl in X. destruct X as [X|X]; [congruence|]. right. simpl. auto.
  - pose proof (k_rgmon _ I _ _ H) as X. ncase a a0; auto. rewrite XA in X. destruct X.
  - destruct (k_world _ I a0 s H) as [X|X]; auto. ncase a a0; auto. rewrite XA in X. right. exact X.
  - pose proof (k_rwmon _ I _ _ H) as X. ncase a a0; auto. rewrite XA in X. destruct X.
  - apply (k_held _ I _ _ _ H H0).
Qed.

Lemma cinv_XDw_cons c a s wm : cinv c -> c_x c a = XDw (s :: wm) ->
  cinv (mkC (pg_world (c_pg c) (nupd (p_world (c_pg c)) s (wclean a (p_world (c_pg c) s))))
            (c_held c) (c_thr c) (nupd (c_x c) a (XDw wm))).
Proof.
  intros I XA. set (g := c_pg c).
  set (g' := pg_world g (nupd (p_world g) s (wclean a (p_world g s)))).
  assert (HW : forall s', world_of g' s' = if N.eqb s s' then nrem a (world_of g s) else world_of g s').
  { intros s'. rewrite world_of_olist. simpl. unfold nupd. ncase s s'; auto. rewrite olist_wclean. reflexivity. }
  constructor; simpl; unfold nupd; intros.
  - ncase a a0; [|apply (k_dead _ I)]. split; intros; [discriminate|]. apply (k_dead _ I). rewrite XA. discriminate.
  - destruct (k_mem _ I a0 k H) as [X|X]; auto. ncase a a0; auto. rewrite XA in X. destruct X.
  - destruct (k_acc _ I _ _ _ _ H H0 H1) as [X|X]; auto. ncase a a0; auto. rewrite XA in X. destruct X.
  - pose proof (k_rmem _ I _ _ H) as X. ncase a a0; simpl; auto.
  - destruct (k_lis _ I a0 k H) as [X|X]; auto. ncase a a0; auto. rewrite XA in X. destruct X.
  - pose proof (k_rgmon _ I _ _ H) as X. ncase a a0; auto. rewrite XA in X. destruct X.
  - rewrite HW in H. ncase s s0.
    + apply In_nrem in H. destruct H as [H Ne].
      destruct (k_world _ I a0 _ H) as [X|X]; auto. ncase a a0; [congruence|auto].
    + destruct (k_world _ I a0 _ H) as [X|X]; auto. ncase a a0; auto.
      rewrite XA in X. simpl in X. destruct X as [X|X]; [congruence|]. right. simpl. auto.
  - pose proof (k_rwmon _ I _ _ H) as X. ncase a a0; auto. rewrite XA in X. destruct X.
  - apply (k_held _ I _ _ _ H H0).
Qed.

Lemma cinv_XL0_some c a r : cinv c -> c_x c a = XL0 -> p_rels (c_pg c) a = Some r ->
  cinv (mkC (pg_rels (c_pg c) (nupd (p_rels (c_pg c)) a (Some (mkR [] (r_gmon r) (r_wmon r)))))
            (c_held c) (c_thr c) (nupd (c_x c) a (XL (r_mem r) []))).
Proof.
  intros I XA R. set (g := c_pg c).
  assert (Ra : rel_of g a = r) by (unfold rel_of, g; rewrite R; auto).
  assert (HR : forall b, rel_of (pg_rels g (nupd (p_rels g) a (Some (mkR [] (r_gmon r) (r_wmon r))))) b
                         = if N.eqb a b then mkR [] (r_gmon r) (r_wmon r) else rel_of g b).
  { intros b. rewrite rel_of_orel. simpl. unfold nupd. ncase a b; auto. }
  constructor; simpl; unfold nupd; intros; try rewrite HR.
  - ncase a a0; [|apply (k_dead _ I)]. split; intros; [discriminate|]. apply (k_dead _ I). rewrite XA. discriminate.
  - destruct (k_mem _ I a0 k H) as [X|X]; ncase a a0; auto;
      try (rewrite XA in X; destruct X); try (right; simpl; auto).
  - destruct (k_acc _ I _ _ _ _ H H0 H1) as [X|X]; ncase a a0; auto;
      try (rewrite XA in X; destruct X); try (right; simpl; auto).
  - rewrite HR in H. ncase a a0; [simpl in H; destruct H|apply (k_rmem _ I _ _ H)].
  - destruct (k_lis _ I a0 k H) as [X|X]; ncase a a0; auto;
      try (rewrite XA in X; destruct X); try (left; simpl; auto).
  - rewrite HR in H. ncase a a0; [|apply (k_rgmon _ I _ _ H)]. simpl in H.
    try (rewrite <- Ra in H). pose proof (k_rgmon _ I _ _ H) as X. rewrite XA in X. destruct X.
  - destruct (k_world _ I a0 s H) as [X|X]; ncase a a0; auto;
      try (rewrite XA in X; destruct X); try (left; simpl; auto).
  - rewrite HR in H. ncase a a0; [|apply (k_rwmon _ I _ _ H)]. simpl in H.
    try (rewrite <- Ra in H). pose proof (k_rwmon _ I _ _ H) as X. rewrite XA in X. destruct X.
  - apply (k_held _ I _ _ _ H H0).
Qed.

Lemma leave_one_gs g a k k' :
  gs_of (leave_one g a k) k' = if keqb k k' then mkG (nrem a (mem_of g k)) (lis_of g k) else gs_of g k'.
Proof.
  unfold leave_one. destruct (emptied a (p_map g k)); rewrite gs_of_ogs; simpl; unfold kupd;
    (kcase k k'; auto; rewrite ogs_lclean; reflexivity).
Qed.

Lemma cinv_XL_cons c a k todo evs evs' : cinv c -> c_x c a = XL (k :: todo) evs -> free c k = true ->
  cinv (mkC (leave_one (c_pg c) a k) (c_held c) (c_thr c) (nupd (c_x c) a (XL todo evs'))).
Proof.
  intros I XA F. set (g := c_pg c). apply free_true in F.
  assert (HR : forall b, rel_of (leave_one g a k) b = rel_of g b).
  { intros. unfold leave_one. destruct (emptied a (p_map g k)); auto. }
  assert (HW : forall s, world_of (leave_one g a k) s = world_of g s).
  { intros. unfold leave_one. destruct (emptied a (p_map g k)); auto. }
  assert (HD : forall b, p_dead (leave_one g a k) b = p_dead g b).
  { intros. unfold leave_one. destruct (emptied a (p_map g k)); auto. }
  constructor; simpl; unfold nupd; intros; try rewrite HR; try rewrite HD.
  - ncase a a0; [|apply (k_dead _ I)]. split; intros; [discriminate|]. apply (k_dead _ I). rewrite XA. discriminate.
  - unfold mem_of in H. rewrite leave_one_gs in H. kcase k k0.
    + simpl in H. apply In_nrem in H. destruct H as [H Ne].
      destruct (k_mem _ I a0 _ H) as [X|X]; auto. ncase a a0; [congruence|auto].
    + destruct (k_mem _ I a0 _ H) as [X|X]; auto. ncase a a0; auto.
      rewrite XA in X. simpl in X. destruct X as [X|X]; [congruence|]. right. simpl. auto.
  - destruct (k_acc _ I _ _ _ _ H H0 H1) as [X|X]; auto. ncase a a0; auto.
    rewrite XA in X. simpl in X. destruct X as [X|X]; [|right; simpl; auto].
    subst k0. pose proof (k_held _ I _ _ _ H H0). congruence.
  - rewrite HR in H. pose proof (k_rmem _ I _ _ H) as X. ncase a a0; auto. rewrite XA in X. destruct X.
  - unfold lis_of in H. rewrite leave_one_gs in H.
    assert (H' : In a0 (lis_of g k0)) by (kcase k k0; auto).
    destruct (k_lis _ I a0 _ H') as [X|X]; auto. ncase a a0; auto. rewrite XA in X. destruct X.
  - rewrite HR in H. pose proof (k_rgmon _ I _ _ H) as X. ncase a a0; auto. rewrite XA in X. destruct X.
  - rewrite HW in H. destruct (k_world _ I a0 s H) as [X|X]; auto. ncase a a0; auto. rewrite XA in X. destruct X.
  - rewrite HR in H. pose proof (k_rwmon _ I _ _ H) as X. ncase a a0; auto. rewrite XA in X. destruct X.
  - apply (k_held _ I _ _ _ H H0).
Qed.

Lemma cinv_xstep c a : cinv c ->
  cinv (let (x', c') := xstep a (c_x c a) c in mkC (c_pg c') (c_held c') (c_thr c') (nupd (c_x c') a x')).
Proof.
  intros I. destruct (c_x c a) eqn:XA; simpl.
  - apply cinv_XAlive; auto.
  - destruct (p_rels (c_pg c) a) as [r|] eqn:R; simpl.
    + apply cinv_XPub_some; auto.
    + assert (E : rel_of (c_pg c) a = empty_rel) by (unfold rel_of; rewrite R; auto).
      apply xframe; auto; try rewrite XA; try rewrite E; simpl; try tauto; try discriminate.
  - destruct gmons as [|k gm]; simpl.
    + apply xframe; auto; try rewrite XA; simpl; try tauto; try discriminate.
      * intros k H. pose proof (k_rgmon _ I _ _ H) as X. rewrite XA in X. exact X.
      * intros s H. pose proof (k_rwmon _ I _ _ H) as X. rewrite XA in X. exact X.
    + destruct (free c k) eqn:F; simpl.
      * apply cinv_XDg_cons; auto.
      * apply xframe; auto; try rewrite XA; simpl; try tauto; try discriminate.
        -- intros k' H. pose proof (k_rgmon _ I _ _ H) as X. rewrite XA in X. exact X.
        -- intros s H. pose proof (k_rwmon _ I _ _ H) as X. rewrite XA in X. exact X.
  - destruct wmons as [|s wm]; simpl.
    + apply xframe; auto; try rewrite XA; simpl; try tauto; try discriminate.
      * intros k H. pose proof (k_rgmon _ I _ _ H) as X. rewrite XA in X. exact X.
      * intros s H. pose proof (k_rwmon _ I _ _ H) as X. rewrite XA in X. exact X.
    + apply cinv_XDw_cons; auto.
  - destruct (p_rels (c_pg c) a) as [r|] eqn:R; simpl.
    + apply cinv_XL0_some; auto.
    + assert (E : rel_of (c_pg c) a = empty_rel) by (unfold rel_of; rewrite R; auto).
      apply xframe; auto; try rewrite XA; try rewrite E; simpl; try tauto; try discriminate.
  - destruct todo as [|k todo]; simpl.
    + apply xframe; auto; try rewrite XA; simpl; try tauto; try discriminate.
      * intros k H. pose proof (k_rmem _ I _ _ H) as X. rewrite XA in X. exact X.
      * intros k H. pose proof (k_rgmon _ I _ _ H) as X. rewrite XA in X. exact X.
      * intros s H. pose proof (k_rwmon _ I _ _ H) as X. rewrite XA in X. exact X.
    + destruct (free c k) eqn:F; simpl.
      * eapply cinv_XL_cons; eauto.
      * apply xframe; auto; try rewrite XA; simpl; try tauto; try discriminate.
        -- intros k' H. pose proof (k_rmem _ I _ _ H) as X. rewrite XA in X. exact X.
        -- intros k' H. pose proof (k_rgmon _ I _ _ H) as X. rewrite XA in X. exact X.
        -- intros s H. pose proof (k_rwmon _ I _ _ H) as X. rewrite XA in X. exact X.
  - apply xframe; auto; try rewrite XA; simpl; try tauto; try discriminate.
    + intros. apply rel_remove_empty.
    + intros k H. pose proof (k_rmem _ I _ _ H) as X. rewrite XA in X. exact X.
    + intros k H. pose proof (k_rgmon _ I _ _ H) as X. rewrite XA in X. exact X.
    + intros s H. pose proof (k_rwmon _ I _ _ H) as X. rewrite XA in X. exact X.
  - destruct evs as [|[k lis] rest]; simpl; apply xframe; auto; try rewrite XA; simpl; try tauto; try discriminate.
    + intros k9 H. pose proof (k_rmem _ I _ _ H) as X. rewrite XA in X. exact X.
    + intros k9 H. pose proof (k_rgmon _ I _ _ H) as X. rewrite XA in X. exact X.
    + intros s9 H. pose proof (k_rwmon _ I _ _ H) as X. rewrite XA in X. exact X.
    + intros k9 H. pose proof (k_rmem _ I _ _ H) as X. rewrite XA in X. exact X.
    + intros k9 H. pose proof (k_rgmon _ I _ _ H) as X. rewrite XA in X. exact X.
    + intros s9 H. pose proof (k_rwmon _ I _ _ H) as X. rewrite XA in X. exact X.
  - apply xframe; auto; try rewrite XA; simpl; try tauto; try discriminate.
    + intros k9 H. pose proof (k_rmem _ I _ _ H) as X. rewrite XA in X. exact X.
    + intros k9 H. pose proof (k_rgmon _ I _ _ H) as X. rewrite XA in X. exact X.
    + intros s9 H. pose proof (k_rwmon _ I _ _ H) as X. rewrite XA in X. exact X.
  - apply xframe; auto; try rewrite XA; simpl; try tauto; try discriminate.
    + intros k9 H. pose proof (k_rmem _ I _ _ H) as X. rewrite XA in X. exact X.
    + intros k9 H. pose proof (k_rgmon _ I _ _ H) as X. rewrite XA in X. exact X.
    + intros s9 H. pose proof (k_rwmon _ I _ _ H) as X. rewrite XA in X. exact X.
  - apply xframe; auto; try rewrite XA; simpl; try tauto; try discriminate.
    + intros k9 H. pose proof (k_rmem _ I _ _ H) as X. rewrite XA in X. exact X.
    + intros k9 H. pose proof (k_rgmon _ I _ _ H) as X. rewrite XA in X. exact X.
    + intros s9 H. pose proof (k_rwmon _ I _ _ H) as X. rewrite XA in X. exact X.
Qed.

Lemma tstep_thr t p c : c_thr (snd (tstep t p c)) = c_thr c /\ c_x (snd (tstep t p c)) = c_x c.
Proof.
  destruct p; simpl; auto;
    repeat match goal with
           | |- context [match ?l with [] => _ | _ :: _ => _ end] => destruct l; simpl; auto
           | |- context [if ?b then _ else _] => destruct b; simpl; auto
           | |- context [match ?o with Some _ => _ | None => _ end] => destruct o; simpl; auto
           end.
Qed.
Lemma xstep_thr a x c : c_thr (snd (xstep a x c)) = c_thr c /\ c_x (snd (xstep a x c)) = c_x c
                        /\ c_held (snd (xstep a x c)) = c_held c.
Proof.
  destruct x; simpl; auto;
    repeat match goal with
           | |- context [match ?l with [] => _ | _ :: _ => _ end] => destruct l; simpl; auto
           | |- context [let (_, _) := ?p in _] => destruct p; simpl; auto
           | |- context [if ?b then _ else _] => destruct b; simpl; auto
           | |- context [match ?o with Some _ => _ | None => _ end] => destruct o; simpl; auto
           end.
Qed.

Theorem cinv_cstep c l : cinv c -> cinv (cstep c l).
Proof.
  intros I. destruct l as [t|a]; simpl.
  - destruct (nth_error (c_thr c) t) as [p|] eqn:N; auto.
    pose proof (cinv_tstep c t p I N) as X. destruct (tstep t p c) as [p' c'] eqn:E.
    pose proof (tstep_thr t p c) as [T1 T2]. rewrite E in T1, T2. simpl in T1, T2.
    rewrite T1 in X. rewrite T1. exact X.
  - pose proof (cinv_xstep c a I) as X. destruct (xstep a (c_x c a) c) as [x' c'] eqn:E.
    pose proof (xstep_thr a (c_x c a) c) as [T1 [T2 T3]]. rewrite E in T1, T2, T3. simpl in *.
    rewrite T2 in X. rewrite T2. exact X.
Qed.

Lemma cinv_init calls : cinv (cinit calls).
Proof.
  constructor; simpl; unfold mem_of, lis_of, gs_of, world_of, rel_of; simpl; intros; try tauto.
  - split; [discriminate|congruence].
  - apply nth_error_In in H. apply in_map_iff in H. destruct H as [cl [<- _]]. destruct cl; simpl in H0; tauto.
  - apply nth_error_In in H. apply in_map_iff in H. destruct H as [cl [<- _]]. destruct cl; simpl in H0; tauto.
Qed.

Theorem cinv_crun calls ls : cinv (crun (cinit calls) ls).
Proof.
  unfold crun. induction ls as [|l ls IH] using rev_ind; simpl; [apply cinv_init|].
  rewrite fold_left_app. simpl. apply cinv_cstep, IH.
Qed.

(* ---------- no zombie, for every interleaving ---------- *)
Theorem no_zombie_conc calls ls a :
  let c := crun (cinit calls) ls in
  c_x c a = XDone ->
  (forall k, ~ In a (mem_of (c_pg c) k)) /\
  (forall k, ~ In a (lis_of (c_pg c) k)) /\
  (forall s, ~ In a (world_of (c_pg c) s)) /\
  (forall k, ~ In k (r_mem (rel_of (c_pg c) a))) /\
  (forall k, ~ In k (r_gmon (rel_of (c_pg c) a))) /\
  (forall s, ~ In s (r_wmon (rel_of (c_pg c) a))) /\
  (forall t p k, nth_error (c_thr c) t = Some p -> holds p k -> ~ In a (accs p)) /\
  p_dead (c_pg c) a = true.
Proof.
  intros c XD. pose proof (cinv_crun calls ls) as I. fold c in I.
  assert (M : forall k, ~ In k (r_mem (rel_of (c_pg c) a))).
  { intros k H. pose proof (k_rmem _ I _ _ H) as X. rewrite XD in X. exact X. }
  assert (G : forall k, ~ In k (r_gmon (rel_of (c_pg c) a))).
  { intros k H. pose proof (k_rgmon _ I _ _ H) as X. rewrite XD in X. exact X. }
  assert (W : forall s, ~ In s (r_wmon (rel_of (c_pg c) a))).
  { intros s H. pose proof (k_rwmon _ I _ _ H) as X. rewrite XD in X. exact X. }
  repeat split; auto.
  - intros k H. destruct (k_mem _ I _ _ H) as [X|X]; [apply (M _ X)|rewrite XD in X; exact X].
  - intros k H. destruct (k_lis _ I _ _ H) as [X|X]; [apply (G _ X)|rewrite XD in X; exact X].
  - intros s H. destruct (k_world _ I _ _ H) as [X|X]; [apply (W _ X)|rewrite XD in X; exact X].
  - intros t p k N H Ha. destruct (k_acc _ I _ _ _ _ N H Ha) as [X|X]; [apply (M _ X)|rewrite XD in X; exact X].
  - apply (k_dead _ I). rewrite XD. discriminate.
Qed.

(* the locked status re-check is the only door into a members list *)
Theorem accepted_only_alive t p c a :
  In a (accs (fst (tstep t p c))) -> ~ In a (accs p) -> p_dead (c_pg c) a = false.
Proof.
  destruct p; simpl; try tauto;
    repeat match goal with
           | |- context [match ?l with [] => _ | _ :: _ => _ end] => destruct l; simpl; try tauto
           | |- context [if ?b then _ else _] => destruct b eqn:?; simpl; try tauto
           | |- context [match ?o with Some _ => _ | None => _ end] => destruct o; simpl; try tauto
           end.
  intros [<-|H] N; [|tauto]. apply negb_true_iff; auto.
Qed.

(* reverse-index direction that cleanup relies on, at every reachable state:
   whoever is in a forward list is recorded in the reverse index or in the pending work
   of its own exit *)
Theorem forward_recorded calls ls a k :
  let c := crun (cinit calls) ls in
  (In a (mem_of (c_pg c) k) -> In k (r_mem (rel_of (c_pg c) a)) \/ pend_m (c_x c a) k) /\
  (In a (lis_of (c_pg c) k) -> In k (r_gmon (rel_of (c_pg c) a)) \/ pend_g (c_x c a) k).
Proof.
  intros c. pose proof (cinv_crun calls ls) as I. split; [apply (k_mem _ I)|apply (k_lis _ I)].
Qed.
