(* Model of ractor/src/pg.rs (process groups) and of the pg part of the exit path in
   ractor/src/actor/actor_cell.rs::set_status.  Definitions only; proofs: Pg/Proofs.v.

   PgState has four indexes:
     map             : (scope,group) -> GroupState { members, listeners }      p_map
     index           : scope -> set of group names with members               p_index
     world_listeners : (scope|ALL_SCOPES, ALL_GROUPS) -> listeners             p_world (by scope)
     actor_relations : actor -> { memberships, group_monitors, world_monitors } p_rels
   DashMaps are modelled as `key -> option value` (presence of an entry is modelled:
   `None` = no entry) plus, for the one map the code iterates (`map`), the list of keys
   ever created (`p_mkeys`, a superset of the domain).  Sets are duplicate-free lists.
   Actor status is abstracted to `p_dead a` = "status >= Stopping was published".

   This file gives each public function as ONE ATOMIC STEP (sequential histories);
   Pg/Conc.v splits the same functions into the lock sections of the code. *)
From Coq Require Import List NArith Bool.
Import ListNotations.
Local Open Scope N_scope.

Definition key := (N * N)%type.              (* (scope, group) *)
Definition keqb (a b : key) : bool := N.eqb (fst a) (fst b) && N.eqb (snd a) (snd b).

Definition DEFAULT : N := 1.                 (* DEFAULT_SCOPE            *)
Definition WORLD : N := 0.                   (* ALL_SCOPES_NOTIFICATION  *)
Definition REMOTE_BASE : N := 100.           (* ids >= 100 model ActorId::Remote *)
Definition is_local (a : N) : bool := N.ltb a REMOTE_BASE.

(* ---------- finite sets as lists ---------- *)
Definition nmem (x : N) (l : list N) : bool := existsb (N.eqb x) l.
Definition nadd (x : N) (l : list N) : list N := if nmem x l then l else l ++ [x].
Definition nrem (x : N) (l : list N) : list N := filter (fun y => negb (N.eqb x y)) l.
Definition kmem (x : key) (l : list key) : bool := existsb (keqb x) l.
Definition kadd (x : key) (l : list key) : list key := if kmem x l then l else l ++ [x].
Definition krem (x : key) (l : list key) : list key := filter (fun y => negb (keqb x y)) l.
Definition null {A} (l : list A) : bool := match l with [] => true | _ => false end.

Definition nupd {V} (f : N -> V) (k : N) (v : V) : N -> V :=
  fun k' => if N.eqb k k' then v else f k'.
Definition kupd {V} (f : key -> V) (k : key) (v : V) : key -> V :=
  fun k' => if keqb k k' then v else f k'.

(* ---------- state ---------- *)
Record gstate := mkG { g_mem : list N; g_lis : list N }.
Record rel := mkR { r_mem : list key; r_gmon : list key; r_wmon : list N }.

Record pg := mkPg {
  p_map : key -> option gstate;
  p_mkeys : list key;
  p_index : N -> option (list N);
  p_world : N -> option (list N);
  p_rels : N -> option rel;
  p_dead : N -> bool }.

Definition pg0 : pg :=
  mkPg (fun _ => None) [] (fun _ => None) (fun _ => None) (fun _ => None) (fun _ => false).

Definition empty_rel := mkR [] [] [].
Definition rel_is_empty (r : rel) : bool := null (r_mem r) && null (r_gmon r) && null (r_wmon r).

Definition gs_of (st : pg) (k : key) : gstate :=
  match p_map st k with Some e => e | None => mkG [] [] end.
Definition mem_of (st : pg) (k : key) : list N := g_mem (gs_of st k).
Definition lis_of (st : pg) (k : key) : list N := g_lis (gs_of st k).
Definition world_of (st : pg) (s : N) : list N :=
  match p_world st s with Some l => l | None => [] end.
Definition rel_of (st : pg) (a : N) : rel :=
  match p_rels st a with Some r => r | None => empty_rel end.
Definition index_of (st : pg) (s : N) : list N :=
  match p_index st s with Some l => l | None => [] end.

(* ---------- notifications ---------- *)
Record ev := mkEv { e_to : N; e_join : bool; e_scope : N; e_group : N; e_acts : list N }.

Definition notify_list (ls : list N) (isj : bool) (s g : N) (acts : list N) : list ev :=
  map (fun l => mkEv l isj s g acts) ls.

(* notify_world_listeners: the scope's listeners, then the all-scopes listeners *)
Definition notify_world (w : N -> option (list N)) (isj : bool) (s g : N) (acts : list N) : list ev :=
  flat_map (fun ws => notify_list (match w ws with Some l => l | None => [] end) isj s g acts)
           [s; WORLD].

(* ---------- index helpers (add_group_to_index / remove_group_from_index) ---------- *)
Definition index_add (idx : N -> option (list N)) (s g : N) : N -> option (list N) :=
  nupd idx s (Some (nadd g (match idx s with Some l => l | None => [] end))).
Definition index_rem (idx : N -> option (list N)) (s g : N) : N -> option (list N) :=
  match idx s with
  | Some l => let l' := nrem g l in nupd idx s (if null l' then None else Some l')
  | None => idx
  end.

(* an entry is dropped when it has neither members nor listeners *)
Definition norm_entry (m l : list N) : option gstate :=
  if null m && null l then None else Some (mkG m l).
Definition norm_list (l : list N) : option (list N) := if null l then None else Some l.

(* ---------- join_scoped ---------- *)
Definition rel_add_mem (k : key) (r : rel) : rel := mkR (kadd k (r_mem r)) (r_gmon r) (r_wmon r).
Definition rel_rem_mem (k : key) (r : rel) : rel := mkR (krem k (r_mem r)) (r_gmon r) (r_wmon r).

Definition join (st : pg) (s g : N) (acts : list N) : pg * list ev :=
  let k := (s, g) in
  (* unlocked filter: actors already >= Stopping are dropped from the call *)
  let kept := filter (fun a => negb (p_dead st a)) acts in
  if null kept then (st, []) else
  let gs := gs_of st k in                                   (* entry(key).or_default() *)
  (* per distinct actor: get_or_create relations, locked status re-check (same answer
     as the filter in an atomic step), memberships.insert(key) *)
  let rels' := fun a => if nmem a kept then Some (rel_add_mem k (rel_of st a)) else p_rels st a in
  let mem' := fold_left (fun m a => nadd a m) kept (g_mem gs) in
  let st' := mkPg (kupd (p_map st) k (Some (mkG mem' (g_lis gs)))) (k :: p_mkeys st)
                  (index_add (p_index st) s g) (p_world st) rels' (p_dead st) in
  (st', notify_list (g_lis gs) true s g kept ++ notify_world (p_world st) true s g kept).

(* ---------- leave_scoped ---------- *)
Definition leave (st : pg) (s g : N) (acts : list N) : pg * list ev :=
  let k := (s, g) in
  match p_map st k with
  | None => (st, [])
  | Some gs =>
    let rels' := fun a => if nmem a acts then option_map (rel_rem_mem k) (p_rels st a) else p_rels st a in
    let mem' := filter (fun x => negb (nmem x acts)) (g_mem gs) in
    let lis := g_lis gs in
    let idx' := if null mem' then index_rem (p_index st) s g else p_index st in
    let st' := mkPg (kupd (p_map st) k (norm_entry mem' lis)) (p_mkeys st) idx' (p_world st) rels' (p_dead st) in
    (st', notify_list lis false s g acts ++ notify_world (p_world st) false s g acts)
  end.

(* ---------- monitor (default scope) / monitor_scope ---------- *)
Definition rels_create (rs : N -> option rel) (a : N) : N -> option rel :=
  match rs a with Some _ => rs | None => nupd rs a (Some empty_rel) end.
Definition rels_remove_empty (rs : N -> option rel) (a : N) : N -> option rel :=
  match rs a with Some r => if rel_is_empty r then nupd rs a None else rs | None => rs end.
Definition map_remove_empty (m : key -> option gstate) (k : key) : key -> option gstate :=
  match m k with
  | Some e => if null (g_mem e) && null (g_lis e) then kupd m k None else m
  | None => m
  end.
Definition world_remove_empty (w : N -> option (list N)) (s : N) : N -> option (list N) :=
  match w s with Some l => if null l then nupd w s None else w | None => w end.

Definition rel_add_gmon (k : key) (r : rel) : rel := mkR (r_mem r) (kadd k (r_gmon r)) (r_wmon r).
Definition rel_rem_gmon (k : key) (r : rel) : rel := mkR (r_mem r) (krem k (r_gmon r)) (r_wmon r).
Definition rel_add_wmon (s : N) (r : rel) : rel := mkR (r_mem r) (r_gmon r) (nadd s (r_wmon r)).
Definition rel_rem_wmon (s : N) (r : rel) : rel := mkR (r_mem r) (r_gmon r) (nrem s (r_wmon r)).
Definition rel_get (rs : N -> option rel) (a : N) : rel :=
  match rs a with Some r => r | None => empty_rel end.

Definition monitor (st : pg) (g a : N) : pg :=
  let k := (DEFAULT, g) in
  let rs1 := rels_create (p_rels st) a in
  let gs := gs_of st k in
  if negb (p_dead st a) then
    mkPg (kupd (p_map st) k (Some (mkG (g_mem gs) (nadd a (g_lis gs))))) (k :: p_mkeys st)
         (p_index st) (p_world st) (nupd rs1 a (Some (rel_add_gmon k (rel_get rs1 a)))) (p_dead st)
  else
    (* entry created by or_default, nothing registered, then the stopping clean-up *)
    mkPg (map_remove_empty (kupd (p_map st) k (Some gs)) k) (k :: p_mkeys st)
         (p_index st) (p_world st) (rels_remove_empty rs1 a) (p_dead st).

Definition monitor_scope (st : pg) (s a : N) : pg :=
  let rs1 := rels_create (p_rels st) a in
  let ls := world_of st s in
  if negb (p_dead st a) then
    mkPg (p_map st) (p_mkeys st) (p_index st) (nupd (p_world st) s (Some (nadd a ls)))
         (nupd rs1 a (Some (rel_add_wmon s (rel_get rs1 a)))) (p_dead st)
  else
    mkPg (p_map st) (p_mkeys st) (p_index st)
         (world_remove_empty (nupd (p_world st) s (Some ls)) s)
         (rels_remove_empty rs1 a) (p_dead st).

(* ---------- demonitor / demonitor_scope ---------- *)
Definition demonitor (st : pg) (g a : N) : pg :=
  let k := (DEFAULT, g) in
  let rels' := nupd (p_rels st) a (option_map (rel_rem_gmon k) (p_rels st a)) in
  match p_map st k with
  | Some gs =>
    mkPg (kupd (p_map st) k (norm_entry (g_mem gs) (nrem a (g_lis gs)))) (p_mkeys st)
         (p_index st) (p_world st) rels' (p_dead st)
  | None => mkPg (p_map st) (p_mkeys st) (p_index st) (p_world st) rels' (p_dead st)
  end.

Definition demonitor_scope (st : pg) (s a : N) : pg :=
  let rels' := nupd (p_rels st) a (option_map (rel_rem_wmon s) (p_rels st a)) in
  match p_world st s with
  | Some ls =>
    mkPg (p_map st) (p_mkeys st) (p_index st) (nupd (p_world st) s (norm_list (nrem a ls)))
         rels' (p_dead st)
  | None => mkPg (p_map st) (p_mkeys st) (p_index st) (p_world st) rels' (p_dead st)
  end.

(* ---------- exit: publish Stopping, demonitor_all, leave_all ---------- *)
(* demonitor_all on one group entry / one world entry *)
Definition gclean (a : N) (e : option gstate) : option gstate :=
  match e with Some gs => norm_entry (g_mem gs) (nrem a (g_lis gs)) | None => None end.
Definition wclean (a : N) (e : option (list N)) : option (list N) :=
  match e with Some l => norm_list (nrem a l) | None => None end.
(* leave_all on one group entry *)
Definition lclean (a : N) (e : option gstate) : option gstate :=
  match e with
  | Some gs => if nmem a (g_mem gs) then norm_entry (nrem a (g_mem gs)) (g_lis gs) else Some gs
  | None => None
  end.

(* index after leave_all: group g of scope s is dropped when it was in the taken
   memberships, the actor was a member and was the last one *)
Definition emptied (a : N) (e : option gstate) : bool :=
  match e with Some gs => nmem a (g_mem gs) && null (nrem a (g_mem gs)) | None => false end.

Definition exit_ (st : pg) (a : N) : pg * list ev :=
  if p_dead st a then (st, []) else
  match p_rels st a with
  | None => (mkPg (p_map st) (p_mkeys st) (p_index st) (p_world st) (p_rels st) (nupd (p_dead st) a true), [])
  | Some r =>
    (* demonitor_all *)
    let map1 := fun k => if kmem k (r_gmon r) then gclean a (p_map st k) else p_map st k in
    let world1 := fun s => if nmem s (r_wmon r) then wclean a (p_world st s) else p_world st s in
    (* leave_all *)
    let map2 := fun k => if kmem k (r_mem r) then lclean a (map1 k) else map1 k in
    let idx2 := fun s => match p_index st s with
                         | Some l => norm_list (filter (fun g => negb (kmem (s, g) (r_mem r) && emptied a (map1 (s, g)))) l)
                         | None => None end in
    let evs := flat_map (fun k =>
                  match map1 k with
                  | Some gs => if nmem a (g_mem gs)
                               then notify_list (g_lis gs) false (fst k) (snd k) [a]
                                    ++ notify_world world1 false (fst k) (snd k) [a]
                               else []
                  | None => [] end) (r_mem r) in
    (mkPg map2 (p_mkeys st) idx2 world1 (nupd (p_rels st) a None) (nupd (p_dead st) a true), evs)
  end.

(* ---------- queries ---------- *)
Definition get_members (st : pg) (s g : N) : list N := mem_of st (s, g).
Definition get_local_members (st : pg) (s g : N) : list N := filter is_local (mem_of st (s, g)).
Definition which_scoped_groups (st : pg) (s : N) : list N := index_of st s.

Fixpoint kdedup (l : list key) : list key :=
  match l with [] => [] | x :: t => if kmem x t then kdedup t else x :: kdedup t end.
Fixpoint ndedup (l : list N) : list N :=
  match l with [] => [] | x :: t => if nmem x t then ndedup t else x :: ndedup t end.

Definition which_scopes_and_groups (st : pg) : list key :=
  filter (fun k => negb (null (mem_of st k))) (kdedup (p_mkeys st)).
Definition which_groups (st : pg) : list N := ndedup (map snd (which_scopes_and_groups st)).
Definition which_scopes (st : pg) : list N := ndedup (map fst (which_scopes_and_groups st)).

(* ---------- operations and runs ---------- *)
Inductive op :=
| OJoin (s g : N) (acts : list N)
| OLeave (s g : N) (acts : list N)
| OMon (g a : N)
| OMonScope (s a : N)
| ODemon (g a : N)
| ODemonScope (s a : N)
| OExit (a : N).

Definition step (st : pg) (o : op) : pg * list ev :=
  match o with
  | OJoin s g acts => join st s g acts
  | OLeave s g acts => leave st s g acts
  | OMon g a => (monitor st g a, [])
  | OMonScope s a => (monitor_scope st s a, [])
  | ODemon g a => (demonitor st g a, [])
  | ODemonScope s a => (demonitor_scope st s a, [])
  | OExit a => exit_ st a
  end.

Definition run (ops : list op) : pg := fold_left (fun st o => fst (step st o)) ops pg0.

(* ---------- abstract specification: sets ---------- *)
Record spec := mkSpec {
  sm : key -> N -> bool;        (* membership *)
  gm : key -> N -> bool;        (* group monitors *)
  wm : N -> N -> bool;          (* scope monitors; WORLD = all scopes *)
  sdead : N -> bool }.

Definition spec0 : spec := mkSpec (fun _ _ => false) (fun _ _ => false) (fun _ _ => false) (fun _ => false).

Definition spec_step (sp : spec) (o : op) : spec :=
  match o with
  | OJoin s g acts =>
    mkSpec (fun k a => sm sp k a || (keqb (s, g) k && nmem a acts && negb (sdead sp a))) (gm sp) (wm sp) (sdead sp)
  | OLeave s g acts =>
    mkSpec (fun k a => sm sp k a && negb (keqb (s, g) k && nmem a acts)) (gm sp) (wm sp) (sdead sp)
  | OMon g a0 =>
    mkSpec (sm sp) (fun k a => gm sp k a || (keqb (DEFAULT, g) k && N.eqb a0 a && negb (sdead sp a))) (wm sp) (sdead sp)
  | OMonScope s a0 =>
    mkSpec (sm sp) (gm sp) (fun s' a => wm sp s' a || (N.eqb s s' && N.eqb a0 a && negb (sdead sp a))) (sdead sp)
  | ODemon g a0 =>
    mkSpec (sm sp) (fun k a => gm sp k a && negb (keqb (DEFAULT, g) k && N.eqb a0 a)) (wm sp) (sdead sp)
  | ODemonScope s a0 =>
    mkSpec (sm sp) (gm sp) (fun s' a => wm sp s' a && negb (N.eqb s s' && N.eqb a0 a)) (sdead sp)
  | OExit a0 =>
    mkSpec (fun k a => sm sp k a && negb (N.eqb a0 a)) (fun k a => gm sp k a && negb (N.eqb a0 a))
           (fun s a => wm sp s a && negb (N.eqb a0 a)) (fun a => sdead sp a || N.eqb a0 a)
  end.

Definition spec_run (ops : list op) : spec := fold_left spec_step ops spec0.

(* abstraction of a model state *)
Definition abs (st : pg) : spec :=
  mkSpec (fun k a => nmem a (mem_of st k)) (fun k a => nmem a (lis_of st k))
         (fun s a => nmem a (world_of st s)) (p_dead st).

(* number of notifications the code sends to actor l for a change of key (s,g):
   one as listener of the group, one as listener of the scope, one as listener of all scopes *)
Definition b2n (b : bool) : nat := if b then 1%nat else 0%nat.
Definition fanout (sp : spec) (s g l : N) : nat :=
  (b2n (gm sp (s, g) l) + b2n (wm sp s l) + b2n (wm sp WORLD l))%nat.

Definition ev_eqb (x y : ev) : bool :=
  N.eqb (e_to x) (e_to y) && Bool.eqb (e_join x) (e_join y) && N.eqb (e_scope x) (e_scope y)
  && N.eqb (e_group x) (e_group y)
  && (fix leq (a b : list N) := match a, b with
                                | [], [] => true
                                | x :: a', y :: b' => N.eqb x y && leq a' b'
                                | _, _ => false end) (e_acts x) (e_acts y).
Definition ev_count (e : ev) (l : list ev) : nat := length (filter (ev_eqb e) l).

(* ---------- views (what the harness observes after each operation) ---------- *)
Record universe := mkU { u_scopes : list N; u_groups : list N; u_actors : list N }.
Definition u_keys (u : universe) : list key :=
  flat_map (fun s => map (fun g => (s, g)) (u_groups u)) (u_scopes u).

(* the four indexes restricted to the universe; only present entries are listed *)
Record snap := mkSnap {
  sn_map : list (key * (list N * list N));
  sn_index : list (N * list N);
  sn_world : list (N * list N);
  sn_rels : list (N * (list key * list key * list N)) }.

Definition opt_list {A B} (f : A -> option B) (l : list A) : list (A * B) :=
  flat_map (fun x => match f x with Some y => [(x, y)] | None => [] end) l.

Definition snapshot (u : universe) (st : pg) : snap :=
  mkSnap (opt_list (fun k => option_map (fun e => (g_mem e, g_lis e)) (p_map st k)) (u_keys u))
         (opt_list (p_index st) (u_scopes u))
         (opt_list (p_world st) (WORLD :: u_scopes u))
         (opt_list (fun a => option_map (fun r => (r_mem r, r_gmon r, r_wmon r)) (p_rels st a)) (u_actors u)).

Record view := mkView {
  v_members : list (key * list N);
  v_local : list (key * list N);
  v_scoped : list (N * list N);
  v_groups : list N;
  v_scopes : list N;
  v_sg : list key;
  v_snap : snap;
  v_events : list ev }.

Definition view_of (u : universe) (st : pg) (evs : list ev) : view :=
  mkView (map (fun k => (k, get_members st (fst k) (snd k))) (u_keys u))
         (map (fun k => (k, get_local_members st (fst k) (snd k))) (u_keys u))
         (map (fun s => (s, which_scoped_groups st s)) (u_scopes u))
         (which_groups st) (which_scopes st) (which_scopes_and_groups st)
         (snapshot u st) evs.

Fixpoint run_views (u : universe) (st : pg) (ops : list op) : list view :=
  match ops with
  | [] => []
  | o :: t => let (st', evs) := step st o in view_of u st' evs :: run_views u st' t
  end.

(* ---------- the executable oracle: property C11 on observed answers ---------- *)
Definition nsubset (a b : list N) : bool := forallb (fun x => nmem x b) a.
Definition nset_eqb (a b : list N) : bool :=
  nsubset a b && nsubset b a && Nat.eqb (length a) (length b).
Definition ksubset (a b : list key) : bool := forallb (fun x => kmem x b) a.
Definition kset_eqb (a b : list key) : bool :=
  ksubset a b && ksubset b a && Nat.eqb (length a) (length b).

Definition nlookup {V} (d : V) (k : N) (l : list (N * V)) : V :=
  match find (fun p => N.eqb k (fst p)) l with Some p => snd p | None => d end.
Definition klookup {V} (d : V) (k : key) (l : list (key * V)) : V :=
  match find (fun p => keqb k (fst p)) l with Some p => snd p | None => d end.

Definition sp_members (u : universe) (sp : spec) (k : key) : list N := filter (sm sp k) (u_actors u).
Definition sp_nonempty (u : universe) (sp : spec) (k : key) : bool := existsb (sm sp k) (u_actors u).

(* (a) every query answers from the membership sets; a group is listed iff it has members *)
Definition check_queries (u : universe) (sp : spec) (v : view) : bool :=
  forallb (fun k => nset_eqb (klookup [999] k (v_members v)) (sp_members u sp k)) (u_keys u)
  && forallb (fun k => nset_eqb (klookup [999] k (v_local v)) (filter is_local (sp_members u sp k))) (u_keys u)
  && forallb (fun s => nset_eqb (nlookup [999] s (v_scoped v))
                                (filter (fun g => sp_nonempty u sp (s, g)) (u_groups u))) (u_scopes u)
  && nset_eqb (v_groups v)
              (filter (fun g => existsb (fun s => sp_nonempty u sp (s, g)) (u_scopes u)) (u_groups u))
  && nset_eqb (v_scopes v)
              (filter (fun s => existsb (fun g => sp_nonempty u sp (s, g)) (u_groups u)) (u_scopes u))
  && kset_eqb (v_sg v) (filter (sp_nonempty u sp) (u_keys u)).

(* (b) cross-index agreement and leak-freedom on the snapshot of the four indexes:
   forward members = spec; forward listeners = spec monitors; reverse index mirrors the
   forward maps; index lists exactly the groups with members; nothing mentions a dead
   actor and a dead actor has no relations entry.  (Empty group/world entries left
   behind are NOT judged here: the property does not speak about them; they show up
   only in the model/implementation view comparison.) *)
Definition check_snapshot (u : universe) (sp : spec) (sn : snap) : bool :=
  let mems k := fst (klookup ([], []) k (sn_map sn)) in
  let liss k := snd (klookup ([], []) k (sn_map sn)) in
  let rel a := nlookup ([], [], []) a (sn_rels sn) in
  forallb (fun k => nset_eqb (mems k) (sp_members u sp k)
                    && nset_eqb (liss k) (filter (gm sp k) (u_actors u))) (u_keys u)
  && forallb (fun s => nset_eqb (nlookup [] s (sn_world sn)) (filter (wm sp s) (u_actors u))) (WORLD :: u_scopes u)
  && forallb (fun s => nset_eqb (nlookup [] s (sn_index sn))
                                (filter (fun g => negb (null (mems (s, g)))) (u_groups u))) (u_scopes u)
  && forallb (fun a =>
        let '(rm, rg, rw) := rel a in
        kset_eqb rm (filter (fun k => nmem a (mems k)) (u_keys u))
        && kset_eqb rg (filter (fun k => nmem a (liss k)) (u_keys u))
        && nset_eqb rw (filter (fun s => nmem a (nlookup [] s (sn_world sn))) (WORLD :: u_scopes u))) (u_actors u)
  && forallb (fun p => negb (sdead sp (fst p))) (sn_rels sn)
  && forallb (fun p => kmem (fst p) (u_keys u)) (sn_map sn)
  && forallb (fun p => nmem (fst p) (u_scopes u)) (sn_index sn)
  && forallb (fun p => nmem (fst p) (WORLD :: u_scopes u)) (sn_world sn)
  && forallb (fun p => nmem (fst p) (u_actors u)) (sn_rels sn).

(* (c) notifications. `sp` = sets before the operation, `sp'` = after it. The monitors
   "at that time" are those of sp' (join/leave do not change monitors; an exiting actor
   has stopped monitoring before its automatic leaves are announced).
   - no one else: every delivered event goes to a monitor of its group, its scope or of
     all scopes, names the group the operation is about, has the right kind and only
     names actors of the call (for the exit: exactly the exiting actor, and only for a
     group it was in);
   - everyone: for every key whose membership really changed, every monitor gets an
     event of the right kind for that key naming every actor that changed. *)
Definition is_monitor (sp : spec) (s g l : N) : bool := gm sp (s, g) l || wm sp s l || wm sp WORLD l.

Definition ev_allowed (sp sp' : spec) (o : op) (e : ev) : bool :=
  is_monitor sp' (e_scope e) (e_group e) (e_to e) &&
  match o with
  | OJoin s g acts => e_join e && N.eqb (e_scope e) s && N.eqb (e_group e) g
                      && forallb (fun a => nmem a acts && negb (sdead sp a)) (e_acts e)
  | OLeave s g acts => negb (e_join e) && N.eqb (e_scope e) s && N.eqb (e_group e) g
                       && nsubset (e_acts e) acts
  | OExit a => negb (e_join e) && negb (sdead sp a) && nset_eqb (e_acts e) [a]
               && sm sp (e_scope e, e_group e) a
  | _ => false
  end.

Definition changed (sp sp' : spec) (k : key) (a : N) : bool := negb (Bool.eqb (sm sp k a) (sm sp' k a)).

Definition ev_covers (u : universe) (sp sp' : spec) (isj : bool) (k : key) (l : N) (e : ev) : bool :=
  N.eqb (e_to e) l && Bool.eqb (e_join e) isj && N.eqb (e_scope e) (fst k) && N.eqb (e_group e) (snd k)
  && forallb (fun a => negb (changed sp sp' k a) || nmem a (e_acts e)) (u_actors u).

Definition op_is_join (o : op) : bool := match o with OJoin _ _ _ => true | _ => false end.

Definition check_events (u : universe) (sp sp' : spec) (o : op) (evs : list ev) : bool :=
  forallb (ev_allowed sp sp' o) evs
  && forallb (fun k =>
       negb (existsb (changed sp sp' k) (u_actors u))
       || forallb (fun l => negb (is_monitor sp' (fst k) (snd k) l)
                            || existsb (ev_covers u sp sp' (op_is_join o) k l) evs) (u_actors u))
     (u_keys u).

(* the automatic leave, counted: for every group the exiting actor was still in, every monitor
   gets at least one Leave naming exactly that actor and at most one per monitor relation it
   holds (group / scope / all scopes); nobody gets one for a group the actor was not in *)
Definition check_exit_counts (u : universe) (sp sp' : spec) (a : N) (evs : list ev) : bool :=
  forallb (fun k => forallb (fun l =>
     let n := ev_count (mkEv l false (fst k) (snd k) [a]) evs in
     if sm sp k a && negb (sdead sp a)
     then Nat.leb (b2n (is_monitor sp' (fst k) (snd k) l)) n && Nat.leb n (fanout sp' (fst k) (snd k) l)
     else Nat.eqb n 0) (u_actors u)) (u_keys u).

Definition check_view (u : universe) (sp : spec) (o : op) (v : view) : bool :=
  let sp' := spec_step sp o in
  check_queries u sp' v && check_snapshot u sp' (v_snap v) && check_events u sp sp' o (v_events v).

Fixpoint check_from (u : universe) (sp : spec) (ops : list op) (vs : list view) : bool :=
  match ops, vs with
  | [], [] => true
  | o :: ops', v :: vs' => check_view u sp o v && check_from u (spec_step sp o) ops' vs'
  | _, _ => false
  end.

Definition check_C11 (u : universe) (ops : list op) (vs : list view) : bool :=
  check_from u spec0 ops vs.

(* which sub-check rejects (diagnostics for the replay file): 0 = accepted *)
Fixpoint why_from (u : universe) (sp : spec) (n : N) (ops : list op) (vs : list view) : N * N :=
  match ops, vs with
  | o :: ops', v :: vs' =>
    let sp' := spec_step sp o in
    if negb (check_queries u sp' v) then (n, 1)
    else if negb (check_snapshot u sp' (v_snap v)) then (n, 2)
    else if negb (check_events u sp sp' o (v_events v)) then (n, 3)
    else why_from u sp' (n + 1) ops' vs'
  | [], [] => (n, 0)
  | _, _ => (n, 4)
  end.
Definition why_C11 (u : universe) (ops : list op) (vs : list view) : N * N := why_from u spec0 0 ops vs.

(* well-formed scenario w.r.t. a universe (the oracle enumerates the universe) *)
Definition op_in (u : universe) (o : op) : bool :=
  match o with
  | OJoin s g acts | OLeave s g acts => nmem s (u_scopes u) && nmem g (u_groups u) && nsubset acts (u_actors u)
  | OMon g a | ODemon g a => nmem DEFAULT (u_scopes u) && nmem g (u_groups u) && nmem a (u_actors u)
  | OMonScope s a | ODemonScope s a => nmem s (WORLD :: u_scopes u) && nmem a (u_actors u)
  | OExit a => nmem a (u_actors u)
  end.
