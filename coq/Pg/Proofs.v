(* Proofs about the atomic-step model of process groups (Pg/Model.v). *)
From Coq Require Import List NArith Bool Lia.
From RV Require Import Pg.Model.
Import ListNotations.
Local Open Scope N_scope.

(* ---------- basics ---------- *)
Lemma keqb_spec a b : reflect (a = b) (keqb a b).
Proof.
  destruct a as [a1 a2], b as [b1 b2]; unfold keqb; simpl.
  destruct (N.eqb_spec a1 b1), (N.eqb_spec a2 b2); simpl; constructor; congruence.
Qed.
Lemma keqb_refl k : keqb k k = true.
Proof. destruct (keqb_spec k k); congruence. Qed.
Lemma keqb_true a b : keqb a b = true <-> a = b.
Proof. destruct (keqb_spec a b); split; congruence. Qed.
Lemma keqb_false a b : keqb a b = false <-> a <> b.
Proof. destruct (keqb_spec a b); split; congruence. Qed.

Lemma nmem_In x l : nmem x l = true <-> In x l.
Proof.
  unfold nmem; rewrite existsb_exists; split.
  - intros [y [Hy E]]. apply N.eqb_eq in E; subst; auto.
  - intros H; exists x; split; auto. apply N.eqb_refl.
Qed.
Lemma nmem_nIn x l : nmem x l = false <-> ~ In x l.
Proof. rewrite <- nmem_In. destruct (nmem x l); split; congruence. Qed.
Lemma kmem_In x l : kmem x l = true <-> In x l.
Proof.
  unfold kmem; rewrite existsb_exists; split.
  - intros [y [Hy E]]. apply keqb_true in E; subst; auto.
  - intros H; exists x; split; auto. apply keqb_refl.
Qed.
Lemma kmem_nIn x l : kmem x l = false <-> ~ In x l.
Proof. rewrite <- kmem_In. destruct (kmem x l); split; congruence. Qed.

Lemma null_nil {A} (l : list A) : null l = true <-> l = [].
Proof. destruct l; simpl; split; congruence. Qed.
Lemma null_false {A} (l : list A) : null l = false <-> l <> [].
Proof. destruct l; simpl; split; congruence. Qed.

Lemma NoDup_snoc {A} (x : A) l : NoDup l -> ~ In x l -> NoDup (l ++ [x]).
Proof.
  induction l as [|y l IH]; simpl; intros H N; [repeat constructor; auto|].
  inversion H; subst. constructor.
  - rewrite in_app_iff; simpl. intuition.
  - apply IH; auto.
Qed.

Lemma In_nadd y x l : In y (nadd x l) <-> y = x \/ In y l.
Proof.
  unfold nadd. destruct (nmem x l) eqn:E.
  - apply nmem_In in E. split; [auto|intros [->|]; auto].
  - rewrite in_app_iff; simpl; intuition.
Qed.
Lemma NoDup_nadd x l : NoDup l -> NoDup (nadd x l).
Proof.
  unfold nadd; intros H. destruct (nmem x l) eqn:E; auto.
  apply nmem_nIn in E. apply NoDup_snoc; auto.
Qed.
Lemma In_nrem y x l : In y (nrem x l) <-> In y l /\ y <> x.
Proof.
  unfold nrem; rewrite filter_In, negb_true_iff, N.eqb_neq. intuition.
Qed.
Lemma NoDup_nrem x l : NoDup l -> NoDup (nrem x l).
Proof. apply NoDup_filter. Qed.
Lemma nrem_notin x l : ~ In x l -> nrem x l = l.
Proof.
  unfold nrem; induction l as [|y l IH]; simpl; intros H; auto.
  destruct (N.eqb_spec x y); simpl; [subst; tauto|]. f_equal; apply IH; tauto.
Qed.
Lemma In_kadd y x l : In y (kadd x l) <-> y = x \/ In y l.
Proof.
  unfold kadd. destruct (kmem x l) eqn:E.
  - apply kmem_In in E. split; [auto|intros [->|]; auto].
  - rewrite in_app_iff; simpl; intuition.
Qed.
Lemma NoDup_kadd x l : NoDup l -> NoDup (kadd x l).
Proof.
  unfold kadd; intros H. destruct (kmem x l) eqn:E; auto.
  apply kmem_nIn in E. apply NoDup_snoc; auto.
Qed.
Lemma In_krem y x l : In y (krem x l) <-> In y l /\ y <> x.
Proof.
  unfold krem; rewrite filter_In, negb_true_iff, keqb_false. intuition.
Qed.
Lemma NoDup_krem x l : NoDup l -> NoDup (krem x l).
Proof. apply NoDup_filter. Qed.

Lemma In_fold_nadd y kept m :
  In y (fold_left (fun m a => nadd a m) kept m) <-> In y m \/ In y kept.
Proof.
  revert m; induction kept as [|a kept IH]; simpl; intros m; [tauto|].
  rewrite IH, In_nadd. intuition.
Qed.
Lemma NoDup_fold_nadd kept m :
  NoDup m -> NoDup (fold_left (fun m a => nadd a m) kept m).
Proof.
  revert m; induction kept as [|a kept IH]; simpl; intros m H; auto.
  apply IH, NoDup_nadd, H.
Qed.

(* ---------- the invariant of quiescent states (Appendix C: P1, P2, P4, P5) ---------- *)
Record inv (st : pg) : Prop := mkInv {
  i_index : forall s g, In g (index_of st s) <-> mem_of st (s, g) <> [];
  i_rmem : forall a k, In k (r_mem (rel_of st a)) <-> In a (mem_of st k);
  i_rgmon : forall a k, In k (r_gmon (rel_of st a)) <-> In a (lis_of st k);
  i_rwmon : forall a s, In s (r_wmon (rel_of st a)) <-> In a (world_of st s);
  i_dead : forall a, p_dead st a = true -> p_rels st a = None;
  i_nd_mem : forall k, NoDup (mem_of st k);
  i_nd_lis : forall k, NoDup (lis_of st k);
  i_nd_world : forall s, NoDup (world_of st s);
  i_nd_index : forall s, NoDup (index_of st s);
  i_nd_rmem : forall a, NoDup (r_mem (rel_of st a));
  i_mkeys : forall k, p_map st k <> None -> In k (p_mkeys st);
  i_noempty : forall k, p_map st k <> Some (mkG [] []);
  i_wnoempty : forall s, p_world st s <> Some [];
  i_inoempty : forall s, p_index st s <> Some [] }.

Lemma inv0 : inv pg0.
Proof.
  constructor; unfold pg0, index_of, mem_of, lis_of, gs_of, world_of, rel_of; simpl;
    try (intros; constructor); try tauto; try congruence; intros; split; intros; try tauto; congruence.
Qed.

Lemma kupd_eq {V} (f : key -> V) k v : kupd f k v k = v.
Proof. unfold kupd; rewrite keqb_refl; auto. Qed.
Lemma kupd_neq {V} (f : key -> V) k v k' : k <> k' -> kupd f k v k' = f k'.
Proof. unfold kupd; intros H; apply keqb_false in H; rewrite H; auto. Qed.
Lemma nupd_eq {V} (f : N -> V) k v : nupd f k v k = v.
Proof. unfold nupd; rewrite N.eqb_refl; auto. Qed.
Lemma nupd_neq {V} (f : N -> V) k v k' : k <> k' -> nupd f k v k' = f k'.
Proof. unfold nupd; intros H; apply N.eqb_neq in H; rewrite H; auto. Qed.

Lemma dead_rel st a : inv st -> p_dead st a = true -> rel_of st a = empty_rel.
Proof. intros I H. unfold rel_of. rewrite (i_dead _ I a H). auto. Qed.

(* a dead actor is nowhere *)
Lemma dead_nowhere st a : inv st -> p_dead st a = true ->
  (forall k, ~ In a (mem_of st k)) /\ (forall k, ~ In a (lis_of st k)) /\
  (forall s, ~ In a (world_of st s)) /\ p_rels st a = None.
Proof.
  intros I H. pose proof (dead_rel _ _ I H) as R.
  repeat split; try (apply (i_dead _ I a H)); intros x Hx.
  - apply (i_rmem _ I) in Hx. rewrite R in Hx. destruct Hx.
  - apply (i_rgmon _ I) in Hx. rewrite R in Hx. destruct Hx.
  - apply (i_rwmon _ I) in Hx. rewrite R in Hx. destruct Hx.
Qed.

Definition ogs (e : option gstate) : gstate := match e with Some x => x | None => mkG [] [] end.
Lemma ogs_norm m l : ogs (norm_entry m l) = mkG m l.
Proof.
  unfold norm_entry. destruct (null m && null l) eqn:E; auto. simpl.
  apply andb_true_iff in E. destruct E as [A B]. apply null_nil in A, B. subst; auto.
Qed.
Definition olist {A} (e : option (list A)) : list A := match e with Some x => x | None => [] end.
Lemma olist_norm l : olist (norm_list l) = l.
Proof. unfold norm_list. destruct l; auto. Qed.
Lemma norm_entry_ne m l : norm_entry m l <> Some (mkG [] []).
Proof.
  unfold norm_entry. destruct (null m && null l) eqn:E; [congruence|].
  intros H; inversion H; subst. discriminate.
Qed.
Lemma norm_list_ne l : norm_list l <> Some [].
Proof. unfold norm_list; destruct l; simpl; congruence. Qed.

Ltac kcase a b := let e := fresh "e" in destruct (keqb_spec a b) as [e|e]; [try (inversion e; clear e); subst|].
Ltac ncase a b := destruct (N.eqb_spec a b); [subst|].

Lemma filter_nil_null {A} (f : A -> bool) l : null (filter f l) = true -> forall x, In x l -> f x = false.
Proof.
  intros H x Hx. apply null_nil in H. destruct (f x) eqn:E; auto.
  assert (In x (filter f l)) by (apply filter_In; auto). rewrite H in H0. destruct H0.
Qed.

(* ---------- join ---------- *)
Lemma inv_join st s g acts : inv st -> inv (fst (join st s g acts)).
Proof.
  intros I. unfold join.
  set (kept := filter (fun a => negb (p_dead st a)) acts).
  destruct (null kept) eqn:EK; [exact I|].
  apply null_false in EK.
  assert (Hkept : forall a, In a kept -> p_dead st a = false).
  { intros a Ha. apply filter_In in Ha. destruct Ha as [_ Ha]. apply negb_true_iff in Ha; auto. }
  destruct kept as [|a0 kept0] eqn:EQK; [congruence|]. rewrite <- EQK in *. clear EK.
  assert (Ha0 : In a0 kept) by (rewrite EQK; left; auto).
  simpl. constructor; simpl.
  - (* index *)
    intros s' g'. unfold index_of, mem_of, gs_of; simpl. unfold index_add, nupd, kupd.
    ncase s s'.
    + simpl. rewrite In_nadd. kcase (s', g) (s', g').
      * simpl. split; [intros _ E|auto].
        assert (X : In a0 (fold_left (fun m a => nadd a m) kept (g_mem (gs_of st (s', g'))))) by (apply In_fold_nadd; auto).
        unfold gs_of in X. rewrite E in X. destruct X.
      * assert (g' <> g) by congruence.
        pose proof (i_index _ I s' g') as X. unfold index_of, mem_of, gs_of in X. rewrite <- X. intuition.
    + kcase (s, g) (s', g'); [congruence|]. apply (i_index _ I).
  - (* rmem *)
    intros a k. unfold rel_of, mem_of, gs_of; simpl. unfold kupd.
    pose proof (i_rmem _ I a k) as X. unfold rel_of, mem_of, gs_of in X.
    destruct (nmem a kept) eqn:EM.
    + apply nmem_In in EM. simpl. rewrite In_kadd. kcase (s, g) k; simpl.
      * rewrite In_fold_nadd. intuition.
      * rewrite <- X. unfold rel_of. intuition congruence.
    + apply nmem_nIn in EM. kcase (s, g) k; simpl; [|exact X].
      rewrite In_fold_nadd. unfold gs_of. rewrite X. intuition.
  - (* rgmon *)
    intros a k. unfold rel_of, lis_of, gs_of; simpl. unfold kupd.
    pose proof (i_rgmon _ I a k) as X. unfold rel_of, lis_of, gs_of in X.
    destruct (nmem a kept); simpl; (kcase (s, g) k; simpl; [|exact X]); exact X.
  - (* rwmon *)
    intros a s'. unfold rel_of; simpl.
    pose proof (i_rwmon _ I a s') as X. unfold rel_of in X.
    destruct (nmem a kept); simpl; exact X.
  - (* dead *)
    intros a Hd. destruct (nmem a kept) eqn:EM; [|apply (i_dead _ I); auto].
    apply nmem_In in EM. rewrite (Hkept _ EM) in Hd. discriminate.
  - intros k. unfold mem_of, gs_of; simpl. unfold kupd. kcase (s, g) k; simpl; [|apply (i_nd_mem _ I)].
    apply NoDup_fold_nadd. apply (i_nd_mem _ I (s, g)).
  - intros k. unfold lis_of, gs_of; simpl. unfold kupd. kcase (s, g) k; simpl; apply (i_nd_lis _ I).
  - apply (i_nd_world _ I).
  - intros s'. unfold index_of; simpl. unfold index_add, nupd. ncase s s'; [|apply (i_nd_index _ I)].
    simpl. apply NoDup_nadd. apply (i_nd_index _ I s').
  - intros a. unfold rel_of; simpl. destruct (nmem a kept); simpl; [|apply (i_nd_rmem _ I)].
    apply NoDup_kadd. apply (i_nd_rmem _ I a).
  - intros k. unfold kupd. kcase (s, g) k; [left; auto|]. intros H; right. apply (i_mkeys _ I); auto.
  - intros k. unfold kupd. kcase (s, g) k; [|apply (i_noempty _ I)].
    intros E; inversion E as [[E1 E2]].
    assert (X : In a0 (fold_left (fun m a => nadd a m) kept (g_mem (gs_of st (s, g))))) by (apply In_fold_nadd; auto).
    rewrite E1 in X. destruct X.
  - apply (i_wnoempty _ I).
  - intros s'. unfold index_add, nupd. ncase s s'; [|apply (i_inoempty _ I)].
    intros E; inversion E as [E1].
    assert (X : In g (nadd g (match p_index st s' with Some l => l | None => [] end))) by (apply In_nadd; auto).
    rewrite E1 in X. destruct X.
Qed.

(* ---------- leave ---------- *)
Definition orel (e : option rel) : rel := match e with Some r => r | None => empty_rel end.
Lemma gs_of_ogs st k : gs_of st k = ogs (p_map st k). Proof. reflexivity. Qed.
Lemma rel_of_orel st a : rel_of st a = orel (p_rels st a). Proof. reflexivity. Qed.
Lemma index_of_olist st s : index_of st s = olist (p_index st s). Proof. reflexivity. Qed.
Lemma world_of_olist st s : world_of st s = olist (p_world st s). Proof. reflexivity. Qed.

Lemma olist_index_rem idx s g s' :
  olist (index_rem idx s g s') = if N.eqb s s' then nrem g (olist (idx s')) else olist (idx s').
Proof.
  unfold index_rem. destruct (idx s) eqn:E.
  - unfold nupd. ncase s s'; auto. rewrite E. simpl.
    change (if null (nrem g l) then None else Some (nrem g l)) with (norm_list (nrem g l)).
    apply olist_norm.
  - ncase s s'; auto. rewrite E. reflexivity.
Qed.
Lemma index_rem_ne idx s g s' : idx s' <> Some [] -> index_rem idx s g s' <> Some [].
Proof.
  intros H. unfold index_rem. destruct (idx s) eqn:E; auto.
  unfold nupd. ncase s s'; auto.
  change (if null (nrem g l) then None else Some (nrem g l)) with (norm_list (nrem g l)).
  apply norm_list_ne.
Qed.
Lemma orel_map f e : f empty_rel = empty_rel -> orel (option_map f e) = f (orel e).
Proof. intros H. destruct e; simpl; auto. Qed.

Lemma In_filter_notin x acts l :
  In x (filter (fun y => negb (nmem y acts)) l) <-> In x l /\ ~ In x acts.
Proof. rewrite filter_In, negb_true_iff, nmem_nIn. tauto. Qed.

Lemma inv_leave st s g acts : inv st -> inv (fst (leave st s g acts)).
Proof.
  intros I. unfold leave. destruct (p_map st (s, g)) as [gs|] eqn:EG; [|exact I].
  set (mem' := filter (fun x => negb (nmem x acts)) (g_mem gs)).
  assert (Hgs : gs_of st (s, g) = gs) by (unfold gs_of; rewrite EG; auto).
  assert (Hmem : mem_of st (s, g) = g_mem gs) by (unfold mem_of; rewrite Hgs; auto).
  assert (Hlis : lis_of st (s, g) = g_lis gs) by (unfold lis_of; rewrite Hgs; auto).
  simpl.
  assert (Hm' : forall k, mem_of (mkPg (kupd (p_map st) (s, g) (norm_entry mem' (g_lis gs))) (p_mkeys st)
       (if null mem' then index_rem (p_index st) s g else p_index st) (p_world st)
       (fun a => if nmem a acts then option_map (rel_rem_mem (s, g)) (p_rels st a) else p_rels st a) (p_dead st)) k
       = if keqb (s, g) k then mem' else mem_of st k).
  { intros k. unfold mem_of at 1. rewrite gs_of_ogs. simpl. unfold kupd.
    destruct (keqb (s, g) k); auto. rewrite ogs_norm. auto. }
  assert (Hl' : forall k, lis_of (mkPg (kupd (p_map st) (s, g) (norm_entry mem' (g_lis gs))) (p_mkeys st)
       (if null mem' then index_rem (p_index st) s g else p_index st) (p_world st)
       (fun a => if nmem a acts then option_map (rel_rem_mem (s, g)) (p_rels st a) else p_rels st a) (p_dead st)) k
       = lis_of st k).
  { intros k. unfold lis_of at 1. rewrite gs_of_ogs. simpl. unfold kupd.
    kcase (s, g) k; auto. rewrite ogs_norm. auto. }
  assert (Hr' : forall a, rel_of (mkPg (kupd (p_map st) (s, g) (norm_entry mem' (g_lis gs))) (p_mkeys st)
       (if null mem' then index_rem (p_index st) s g else p_index st) (p_world st)
       (fun a => if nmem a acts then option_map (rel_rem_mem (s, g)) (p_rels st a) else p_rels st a) (p_dead st)) a
       = if nmem a acts then rel_rem_mem (s, g) (rel_of st a) else rel_of st a).
  { intros a. rewrite rel_of_orel. simpl. destruct (nmem a acts); auto. rewrite orel_map; auto. }
  constructor; try rewrite Hm'; try rewrite Hl'; try rewrite Hr'.
  - (* index *)
    intros s' g'. rewrite Hm'. rewrite index_of_olist. simpl.
    pose proof (i_index _ I s' g') as X. rewrite index_of_olist in X.
    destruct (null mem') eqn:EN.
    + rewrite olist_index_rem. apply null_nil in EN.
      ncase s s'.
      * rewrite In_nrem, X. kcase (s', g) (s', g'); [rewrite EN; intuition|].
        assert (g' <> g) by congruence. intuition.
      * kcase (s, g) (s', g'); [congruence|]. exact X.
    + apply null_false in EN. kcase (s, g) (s', g'); [|exact X].
      rewrite X. rewrite Hmem. split; auto. intros _ E. apply EN. subst mem'.
      rewrite E. reflexivity.
  - (* rmem *)
    intros a k. rewrite Hm', Hr'. pose proof (i_rmem _ I a k) as X.
    destruct (nmem a acts) eqn:EA.
    + apply nmem_In in EA. simpl. rewrite In_krem, X. kcase (s, g) k.
      * subst mem'. rewrite In_filter_notin. intuition.
      * intuition.
    + apply nmem_nIn in EA. kcase (s, g) k; [|exact X].
      subst mem'. rewrite In_filter_notin, X, Hmem. intuition.
  - intros a k. rewrite Hl', Hr'. pose proof (i_rgmon _ I a k) as X.
    destruct (nmem a acts); simpl; exact X.
  - intros a s'. rewrite Hr'. pose proof (i_rwmon _ I a s') as X.
    destruct (nmem a acts); simpl; exact X.
  - simpl. intros a Hd. rewrite (i_dead _ I a Hd). destruct (nmem a acts); auto.
  - intros k. rewrite Hm'. kcase (s, g) k; [|apply (i_nd_mem _ I)].
    subst mem'. apply NoDup_filter. rewrite <- Hmem. apply (i_nd_mem _ I).
  - intros k. rewrite Hl'. apply (i_nd_lis _ I).
  - apply (i_nd_world _ I).
  - intros s'. rewrite index_of_olist. simpl. destruct (null mem').
    + rewrite olist_index_rem. ncase s s'; [apply NoDup_nrem|]; apply (i_nd_index _ I).
    + apply (i_nd_index _ I).
  - intros a. rewrite Hr'. destruct (nmem a acts); simpl; [apply NoDup_krem|]; apply (i_nd_rmem _ I).
  - simpl. intros k. unfold kupd. kcase (s, g) k.
    + intros _. apply (i_mkeys _ I). congruence.
    + apply (i_mkeys _ I).
  - simpl. intros k. unfold kupd. kcase (s, g) k; [apply norm_entry_ne|apply (i_noempty _ I)].
  - apply (i_wnoempty _ I).
  - simpl. intros s'. destruct (null mem'); [apply index_rem_ne|]; apply (i_inoempty _ I).
Qed.

(* ---------- monitor / monitor_scope / demonitor / demonitor_scope ---------- *)
Lemma orel_create rs a b : orel (rels_create rs a b) = orel (rs b).
Proof.
  unfold rels_create. destruct (rs a) eqn:E; auto. unfold nupd. ncase a b; auto. rewrite E. auto.
Qed.
Lemma orel_remove_empty rs a b : orel (rels_remove_empty rs a b) = orel (rs b).
Proof.
  unfold rels_remove_empty. destruct (rs a) eqn:E; auto.
  destruct (rel_is_empty r) eqn:EE; auto. unfold nupd. ncase a b; auto. rewrite E. simpl.
  unfold rel_is_empty in EE. apply andb_true_iff in EE. destruct EE as [EE C].
  apply andb_true_iff in EE. destruct EE as [A B].
  apply null_nil in A, B, C. destruct r; simpl in *; subst; auto.
Qed.
Lemma ogs_remove_empty m k k' : ogs (map_remove_empty m k k') = ogs (m k').
Proof.
  unfold map_remove_empty. destruct (m k) eqn:E; auto.
  destruct (null (g_mem g) && null (g_lis g)) eqn:EE; auto. unfold kupd. kcase k k'; auto.
  rewrite E. simpl. apply andb_true_iff in EE. destruct EE as [A B]. apply null_nil in A, B.
  destruct g; simpl in *; subst; auto.
Qed.
Lemma map_remove_empty_ne m k k' :
  (k <> k' -> m k' <> Some (mkG [] [])) -> map_remove_empty m k k' <> Some (mkG [] []).
Proof.
  intros H. unfold map_remove_empty. destruct (m k) eqn:E.
  - destruct (null (g_mem g) && null (g_lis g)) eqn:EE.
    + unfold kupd. kcase k k'; [congruence|auto].
    + kcase k k'; auto. rewrite E. intros X; inversion X; subst. discriminate.
  - kcase k k'; auto. congruence.
Qed.
Lemma olist_world_remove_empty w s s' : olist (world_remove_empty w s s') = olist (w s').
Proof.
  unfold world_remove_empty. destruct (w s) eqn:E; auto. destruct (null l) eqn:EE; auto.
  unfold nupd. ncase s s'; auto. rewrite E. apply null_nil in EE. subst; auto.
Qed.
Lemma world_remove_empty_ne w s s' :
  (s <> s' -> w s' <> Some []) -> world_remove_empty w s s' <> Some [].
Proof.
  intros H. unfold world_remove_empty. destruct (w s) eqn:E.
  - destruct (null l) eqn:EE.
    + unfold nupd. ncase s s'; [congruence|auto].
    + ncase s s'; auto. rewrite E. intros X; inversion X; subst. discriminate.
  - ncase s s'; auto. congruence.
Qed.

Lemma inv_same st st' : inv st ->
  (forall k, gs_of st' k = gs_of st k) -> (forall s, world_of st' s = world_of st s) ->
  (forall a, rel_of st' a = rel_of st a) -> p_index st' = p_index st -> p_dead st' = p_dead st ->
  (forall a, p_dead st a = true -> p_rels st' a = None) ->
  (forall k, p_map st' k <> None -> In k (p_mkeys st')) ->
  (forall k, p_map st' k <> Some (mkG [] [])) -> (forall s, p_world st' s <> Some []) -> inv st'.
Proof.
  intros I G W R X D Hd Hk He Hw.
  constructor; unfold mem_of, lis_of, index_of; intros; repeat rewrite G; repeat rewrite W;
    repeat rewrite R; repeat rewrite X; auto; try apply I; auto.
  rewrite D in *. auto.
Qed.

Lemma inv_monitor st g a : inv st -> inv (monitor st g a).
Proof.
  intros I. unfold monitor. set (k := (DEFAULT, g)).
  assert (Rg : rel_get (rels_create (p_rels st) a) a = rel_of st a).
  { unfold rel_get. change (orel (rels_create (p_rels st) a a) = rel_of st a). rewrite orel_create. auto. }
  destruct (p_dead st a) eqn:ED; simpl.
  - (* stopping actor: nothing registered, temporary entries removed again *)
    apply (inv_same st); auto; simpl.
    + intros k'. rewrite !gs_of_ogs. simpl. rewrite ogs_remove_empty. unfold kupd.
      kcase k k'; auto.
    + intros b. rewrite !rel_of_orel. simpl. rewrite orel_remove_empty, orel_create. auto.
    + intros b Hb. pose proof (i_dead _ I b Hb) as Nb.
      unfold rels_remove_empty, rels_create. rewrite (i_dead _ I a ED).
      rewrite nupd_eq. simpl. unfold nupd. ncase a b; auto.
    + intros k'. intros H. kcase k k'; [left; auto|right].
      apply (i_mkeys _ I). intros E. apply H. unfold map_remove_empty.
      rewrite kupd_eq. destruct (null (g_mem (gs_of st k)) && null (g_lis (gs_of st k)));
        unfold kupd; apply keqb_false in e; try rewrite e; auto.
    + intros k'. apply map_remove_empty_ne. intros Hn. rewrite kupd_neq; auto. apply (i_noempty _ I).
    + apply (i_wnoempty _ I).
  - assert (Hm : forall k', mem_of (mkPg (kupd (p_map st) k (Some (mkG (g_mem (gs_of st k)) (nadd a (g_lis (gs_of st k))))))
        (k :: p_mkeys st) (p_index st) (p_world st)
        (nupd (rels_create (p_rels st) a) a (Some (rel_add_gmon k (rel_get (rels_create (p_rels st) a) a)))) (p_dead st)) k'
        = mem_of st k').
    { intros k'. unfold mem_of, gs_of. simpl. unfold kupd. kcase k k'; auto. }
    assert (Hl : forall k', lis_of (mkPg (kupd (p_map st) k (Some (mkG (g_mem (gs_of st k)) (nadd a (g_lis (gs_of st k))))))
        (k :: p_mkeys st) (p_index st) (p_world st)
        (nupd (rels_create (p_rels st) a) a (Some (rel_add_gmon k (rel_get (rels_create (p_rels st) a) a)))) (p_dead st)) k'
        = if keqb k k' then nadd a (lis_of st k) else lis_of st k').
    { intros k'. unfold lis_of, gs_of. simpl. unfold kupd. destruct (keqb k k'); auto. }
    assert (Hr : forall b, rel_of (mkPg (kupd (p_map st) k (Some (mkG (g_mem (gs_of st k)) (nadd a (g_lis (gs_of st k))))))
        (k :: p_mkeys st) (p_index st) (p_world st)
        (nupd (rels_create (p_rels st) a) a (Some (rel_add_gmon k (rel_get (rels_create (p_rels st) a) a)))) (p_dead st)) b
        = if N.eqb a b then rel_add_gmon k (rel_of st a) else rel_of st b).
    { intros b. rewrite rel_of_orel. simpl. unfold nupd. ncase a b; simpl; [rewrite Rg; auto|].
      rewrite orel_create. auto. }
    constructor; try rewrite Hm; try rewrite Hl; try rewrite Hr.
    + intros s' g'. rewrite Hm. apply (i_index _ I).
    + intros b k'. rewrite Hm, Hr. ncase a b; simpl; apply (i_rmem _ I).
    + intros b k'. rewrite Hl, Hr. pose proof (i_rgmon _ I b k') as X.
      ncase a b; simpl.
      * rewrite In_kadd. kcase k k'; [rewrite In_nadd; intuition|]. rewrite X. intuition congruence.
      * kcase k k'; [|exact X]. rewrite In_nadd, X. intuition congruence.
    + intros b s'. rewrite Hr. ncase a b; simpl; apply (i_rwmon _ I).
    + simpl. intros b Hb. unfold nupd. ncase a b; [congruence|].
      unfold rels_create. destruct (p_rels st a); [apply (i_dead _ I); auto|].
      rewrite nupd_neq; auto. apply (i_dead _ I); auto.
    + intros k'. rewrite Hm. apply (i_nd_mem _ I).
    + intros k'. rewrite Hl. kcase k k'; [apply NoDup_nadd|]; apply (i_nd_lis _ I).
    + apply (i_nd_world _ I).
    + apply (i_nd_index _ I).
    + intros b. rewrite Hr. ncase a b; simpl; apply (i_nd_rmem _ I).
    + simpl. intros k'. unfold kupd. kcase k k'; [left; auto|]. intros H; right. apply (i_mkeys _ I); auto.
    + simpl. intros k'. unfold kupd. kcase k k'; [|apply (i_noempty _ I)].
      intros E. inversion E as [[E1 E2]].
      assert (X : In a (nadd a (g_lis (gs_of st k)))) by (apply In_nadd; auto).
      rewrite E2, E1 in X. destruct X.
    + apply (i_wnoempty _ I).
    + apply (i_inoempty _ I).
Qed.

Lemma inv_monitor_scope st s a : inv st -> inv (monitor_scope st s a).
Proof.
  intros I. unfold monitor_scope.
  assert (Rg : rel_get (rels_create (p_rels st) a) a = rel_of st a).
  { unfold rel_get. change (orel (rels_create (p_rels st) a a) = rel_of st a). rewrite orel_create. auto. }
  destruct (p_dead st a) eqn:ED; simpl.
  - apply (inv_same st); auto; simpl.
    + intros s'. rewrite !world_of_olist. simpl. rewrite olist_world_remove_empty. unfold nupd.
      ncase s s'; auto.
    + intros b. rewrite !rel_of_orel. simpl. rewrite orel_remove_empty, orel_create. auto.
    + intros b Hb. pose proof (i_dead _ I b Hb) as Nb.
      unfold rels_remove_empty, rels_create. rewrite (i_dead _ I a ED).
      rewrite nupd_eq. simpl. unfold nupd. ncase a b; auto.
    + apply (i_mkeys _ I).
    + apply (i_noempty _ I).
    + intros s'. apply world_remove_empty_ne. intros Hn. rewrite nupd_neq; auto. apply (i_wnoempty _ I).
  - assert (Hw : forall s', world_of (mkPg (p_map st) (p_mkeys st) (p_index st)
        (nupd (p_world st) s (Some (nadd a (world_of st s))))
        (nupd (rels_create (p_rels st) a) a (Some (rel_add_wmon s (rel_get (rels_create (p_rels st) a) a)))) (p_dead st)) s'
        = if N.eqb s s' then nadd a (world_of st s) else world_of st s').
    { intros s'. unfold world_of at 1. simpl. unfold nupd. destruct (N.eqb s s'); auto. }
    assert (Hr : forall b, rel_of (mkPg (p_map st) (p_mkeys st) (p_index st)
        (nupd (p_world st) s (Some (nadd a (world_of st s))))
        (nupd (rels_create (p_rels st) a) a (Some (rel_add_wmon s (rel_get (rels_create (p_rels st) a) a)))) (p_dead st)) b
        = if N.eqb a b then rel_add_wmon s (rel_of st a) else rel_of st b).
    { intros b. rewrite rel_of_orel. simpl. unfold nupd. ncase a b; simpl; [rewrite Rg; auto|].
      rewrite orel_create. auto. }
    constructor; try rewrite Hw; try rewrite Hr.
    + apply (i_index _ I).
    + intros b k'. rewrite Hr. ncase a b; simpl; apply (i_rmem _ I).
    + intros b k'. rewrite Hr. ncase a b; simpl; apply (i_rgmon _ I).
    + intros b s'. rewrite Hw, Hr. pose proof (i_rwmon _ I b s') as X.
      ncase a b; simpl.
      * rewrite In_nadd. ncase s s'; [rewrite In_nadd; intuition|]. rewrite X. intuition congruence.
      * ncase s s'; [|exact X]. rewrite In_nadd, X. intuition congruence.
    + simpl. intros b Hb. unfold nupd. ncase a b; [congruence|].
      unfold rels_create. destruct (p_rels st a); [apply (i_dead _ I); auto|].
      rewrite nupd_neq; auto. apply (i_dead _ I); auto.
    + apply (i_nd_mem _ I).
    + apply (i_nd_lis _ I).
    + intros s'. rewrite Hw. ncase s s'; [apply NoDup_nadd|]; apply (i_nd_world _ I).
    + apply (i_nd_index _ I).
    + intros b. rewrite Hr. ncase a b; simpl; apply (i_nd_rmem _ I).
    + apply (i_mkeys _ I).
    + apply (i_noempty _ I).
    + simpl. intros s'. unfold nupd. ncase s s'; [|apply (i_wnoempty _ I)].
      intros E. inversion E as [E1].
      assert (X : In a (nadd a (world_of st s'))) by (apply In_nadd; auto).
      rewrite E1 in X. destruct X.
    + apply (i_inoempty _ I).
Qed.

Lemma inv_demonitor st g a : inv st -> inv (demonitor st g a).
Proof.
  intros I. unfold demonitor. set (k := (DEFAULT, g)).
  set (rels' := nupd (p_rels st) a (option_map (rel_rem_gmon k) (p_rels st a))).
  assert (Hr : forall b, orel (rels' b) = if N.eqb a b then rel_rem_gmon k (rel_of st a) else rel_of st b).
  { intros b. unfold rels', nupd. ncase a b; auto. rewrite orel_map; auto. }
  assert (Hd : forall b, p_dead st b = true -> rels' b = None).
  { intros b Hb. unfold rels', nupd. ncase a b; [|apply (i_dead _ I); auto].
    rewrite (i_dead _ I b Hb). auto. }
  destruct (p_map st k) as [gs|] eqn:EG.
  - assert (Hgs : gs_of st k = gs) by (unfold gs_of; rewrite EG; auto).
    assert (Hm : forall k', mem_of (mkPg (kupd (p_map st) k (norm_entry (g_mem gs) (nrem a (g_lis gs))))
         (p_mkeys st) (p_index st) (p_world st) rels' (p_dead st)) k' = mem_of st k').
    { intros k'. unfold mem_of at 1. rewrite gs_of_ogs. simpl. unfold kupd. kcase k k'; auto.
      rewrite ogs_norm. unfold mem_of. try rewrite Hgs. auto. }
    assert (Hl : forall k', lis_of (mkPg (kupd (p_map st) k (norm_entry (g_mem gs) (nrem a (g_lis gs))))
         (p_mkeys st) (p_index st) (p_world st) rels' (p_dead st)) k'
         = if keqb k k' then nrem a (lis_of st k) else lis_of st k').
    { intros k'. unfold lis_of at 1. rewrite gs_of_ogs. simpl. unfold kupd. destruct (keqb k k'); auto.
      rewrite ogs_norm. unfold lis_of. rewrite Hgs. auto. }
    constructor; try rewrite Hm; try rewrite Hl; try (rewrite rel_of_orel; simpl; rewrite Hr).
    + intros s' g'. rewrite Hm. apply (i_index _ I).
    + intros b k'. rewrite Hm, rel_of_orel. simpl. rewrite Hr. ncase a b; simpl; apply (i_rmem _ I).
    + intros b k'. rewrite Hl, rel_of_orel. simpl. rewrite Hr. pose proof (i_rgmon _ I b k') as X.
      ncase a b; simpl.
      * rewrite In_krem, X. kcase k k'; [rewrite In_nrem; intuition|]. intuition congruence.
      * kcase k k'; [|exact X]. rewrite In_nrem, X. intuition congruence.
    + intros b s'. rewrite rel_of_orel. simpl. rewrite Hr. ncase a b; simpl; apply (i_rwmon _ I).
    + exact Hd.
    + intros k'. rewrite Hm. apply (i_nd_mem _ I).
    + intros k'. rewrite Hl. kcase k k'; [apply NoDup_nrem|]; apply (i_nd_lis _ I).
    + apply (i_nd_world _ I).
    + apply (i_nd_index _ I).
    + intros b. rewrite rel_of_orel. simpl. rewrite Hr. ncase a b; simpl; apply (i_nd_rmem _ I).
    + simpl. intros k'. unfold kupd. kcase k k'; [|apply (i_mkeys _ I)].
      intros _. apply (i_mkeys _ I). congruence.
    + simpl. intros k'. unfold kupd. kcase k k'; [apply norm_entry_ne|apply (i_noempty _ I)].
    + apply (i_wnoempty _ I).
    + apply (i_inoempty _ I).
  - (* no entry: a is not a listener of k, so k is not among its group monitors *)
    assert (Hk : ~ In k (r_gmon (rel_of st a))).
    { rewrite (i_rgmon _ I). unfold lis_of, gs_of. rewrite EG. simpl. tauto. }
    assert (Hr2 : forall b, orel (rels' b) = rel_of st b).
    { intros b. rewrite Hr. ncase a b; auto. unfold rel_rem_gmon.
      assert (E : krem k (r_gmon (rel_of st b)) = r_gmon (rel_of st b)).
      { unfold krem. clear - Hk. induction (r_gmon (rel_of st b)) as [|y l IH]; simpl in *; auto.
        kcase k y; simpl; [tauto|]. f_equal. apply IH. tauto. }
      rewrite E. destruct (rel_of st b); auto. }
    apply (inv_same st); auto; try apply I.
Qed.

Lemma inv_demonitor_scope st s a : inv st -> inv (demonitor_scope st s a).
Proof.
  intros I. unfold demonitor_scope.
  set (rels' := nupd (p_rels st) a (option_map (rel_rem_wmon s) (p_rels st a))).
  assert (Hr : forall b, orel (rels' b) = if N.eqb a b then rel_rem_wmon s (rel_of st a) else rel_of st b).
  { intros b. unfold rels', nupd. ncase a b; auto. rewrite orel_map; auto. }
  assert (Hd : forall b, p_dead st b = true -> rels' b = None).
  { intros b Hb. unfold rels', nupd. ncase a b; [|apply (i_dead _ I); auto].
    rewrite (i_dead _ I b Hb). auto. }
  destruct (p_world st s) as [ls|] eqn:EG.
  - assert (Hls : world_of st s = ls) by (unfold world_of; rewrite EG; auto).
    assert (Hw : forall s', world_of (mkPg (p_map st) (p_mkeys st) (p_index st)
         (nupd (p_world st) s (norm_list (nrem a ls))) rels' (p_dead st)) s'
         = if N.eqb s s' then nrem a (world_of st s) else world_of st s').
    { intros s'. rewrite world_of_olist. simpl. unfold nupd. destruct (N.eqb s s'); auto.
      rewrite olist_norm, Hls. auto. }
    constructor; try rewrite Hw; try (rewrite rel_of_orel; simpl; rewrite Hr).
    + apply (i_index _ I).
    + intros b k'. rewrite rel_of_orel. simpl. rewrite Hr. ncase a b; simpl; apply (i_rmem _ I).
    + intros b k'. rewrite rel_of_orel. simpl. rewrite Hr. ncase a b; simpl; apply (i_rgmon _ I).
    + intros b s'. rewrite Hw, rel_of_orel. simpl. rewrite Hr. pose proof (i_rwmon _ I b s') as X.
      ncase a b; simpl.
      * rewrite In_nrem, X. ncase s s'; [rewrite In_nrem; intuition|]. intuition congruence.
      * ncase s s'; [|exact X]. rewrite In_nrem, X. intuition congruence.
    + exact Hd.
    + apply (i_nd_mem _ I).
    + apply (i_nd_lis _ I).
    + intros s'. rewrite Hw. ncase s s'; [apply NoDup_nrem|]; apply (i_nd_world _ I).
    + apply (i_nd_index _ I).
    + intros b. rewrite rel_of_orel. simpl. rewrite Hr. ncase a b; simpl; apply (i_nd_rmem _ I).
    + apply (i_mkeys _ I).
    + apply (i_noempty _ I).
    + simpl. intros s'. unfold nupd. ncase s s'; [apply norm_list_ne|apply (i_wnoempty _ I)].
    + apply (i_inoempty _ I).
  - assert (Hk : ~ In s (r_wmon (rel_of st a))).
    { rewrite (i_rwmon _ I). unfold world_of. rewrite EG. simpl. tauto. }
    assert (Hr2 : forall b, orel (rels' b) = rel_of st b).
    { intros b. rewrite Hr. ncase a b; auto. unfold rel_rem_wmon.
      rewrite nrem_notin; auto. destruct (rel_of st b); auto. }
    apply (inv_same st); auto; try apply I.
Qed.

(* ---------- exit ---------- *)
Lemma ogs_gclean a e : ogs (gclean a e) = mkG (g_mem (ogs e)) (nrem a (g_lis (ogs e))).
Proof. destruct e; simpl; auto. apply ogs_norm. Qed.
Lemma ogs_lclean a e : ogs (lclean a e) = mkG (nrem a (g_mem (ogs e))) (g_lis (ogs e)).
Proof.
  destruct e as [gs|]; simpl; auto. destruct (nmem a (g_mem gs)) eqn:E.
  - apply ogs_norm.
  - apply nmem_nIn in E. rewrite nrem_notin; auto. destruct gs; auto.
Qed.
Lemma olist_wclean a e : olist (wclean a e) = nrem a (olist e).
Proof. destruct e; simpl; auto. apply olist_norm. Qed.
Lemma gclean_ne a e : e <> Some (mkG [] []) -> gclean a e <> Some (mkG [] []).
Proof. destruct e; simpl; auto. intros _. apply norm_entry_ne. Qed.
Lemma lclean_ne a e : e <> Some (mkG [] []) -> lclean a e <> Some (mkG [] []).
Proof. destruct e; simpl; auto. destruct (nmem a (g_mem g)); auto. intros _. apply norm_entry_ne. Qed.
Lemma wclean_ne a e : wclean a e <> Some [].
Proof. destruct e; simpl; [apply norm_list_ne|congruence]. Qed.
Lemma emptied_ogs a e : emptied a e = nmem a (g_mem (ogs e)) && null (nrem a (g_mem (ogs e))).
Proof. destruct e; simpl; auto. Qed.

Section Exit.
  Variable st : pg.
  Variable a : N.
  Variable r : rel.
  Hypothesis I : inv st.
  Hypothesis Hr : p_rels st a = Some r.
  Hypothesis Halive : p_dead st a = false.

  Definition x_map1 := fun k => if kmem k (r_gmon r) then gclean a (p_map st k) else p_map st k.
  Definition x_world1 := fun s => if nmem s (r_wmon r) then wclean a (p_world st s) else p_world st s.
  Definition x_map2 := fun k => if kmem k (r_mem r) then lclean a (x_map1 k) else x_map1 k.
  Definition x_idx2 := fun s => match p_index st s with
    | Some l => norm_list (filter (fun g => negb (kmem (s, g) (r_mem r) && emptied a (x_map1 (s, g)))) l)
    | None => None end.
  Definition x_st' := mkPg x_map2 (p_mkeys st) x_idx2 x_world1 (nupd (p_rels st) a None) (nupd (p_dead st) a true).

  Lemma x_rel : rel_of st a = r.
  Proof. unfold rel_of. rewrite Hr. auto. Qed.

  Lemma x_ogs1 k : ogs (x_map1 k) = mkG (mem_of st k) (nrem a (lis_of st k)).
  Proof.
    unfold x_map1. destruct (kmem k (r_gmon r)) eqn:E.
    - rewrite ogs_gclean. reflexivity.
    - apply kmem_nIn in E. rewrite <- x_rel in E. rewrite (i_rgmon _ I) in E.
      rewrite nrem_notin; auto. unfold mem_of, lis_of. rewrite gs_of_ogs. destruct (ogs (p_map st k)); auto.
  Qed.
  Lemma x_ogs2 k : ogs (x_map2 k) = mkG (nrem a (mem_of st k)) (nrem a (lis_of st k)).
  Proof.
    unfold x_map2. destruct (kmem k (r_mem r)) eqn:E.
    - rewrite ogs_lclean, x_ogs1. reflexivity.
    - apply kmem_nIn in E. rewrite <- x_rel in E. rewrite (i_rmem _ I) in E.
      rewrite x_ogs1. rewrite (nrem_notin a (mem_of st k)); auto.
  Qed.
  Lemma x_mem k : mem_of x_st' k = nrem a (mem_of st k).
  Proof. unfold mem_of at 1. rewrite gs_of_ogs. simpl. rewrite x_ogs2. auto. Qed.
  Lemma x_lis k : lis_of x_st' k = nrem a (lis_of st k).
  Proof. unfold lis_of at 1. rewrite gs_of_ogs. simpl. rewrite x_ogs2. auto. Qed.
  Lemma x_world s : world_of x_st' s = nrem a (world_of st s).
  Proof.
    rewrite world_of_olist. simpl. unfold x_world1. destruct (nmem s (r_wmon r)) eqn:E.
    - rewrite olist_wclean. auto.
    - apply nmem_nIn in E. rewrite <- x_rel in E. rewrite (i_rwmon _ I) in E.
      rewrite nrem_notin; auto.
  Qed.
  Lemma x_relof b : rel_of x_st' b = if N.eqb a b then empty_rel else rel_of st b.
  Proof. rewrite rel_of_orel. simpl. unfold nupd. destruct (N.eqb a b); auto. Qed.
  Lemma x_index s : index_of x_st' s =
    filter (fun g => negb (nmem a (mem_of st (s, g)) && null (nrem a (mem_of st (s, g))))) (index_of st s).
  Proof.
    rewrite index_of_olist. simpl. unfold x_idx2, index_of. destruct (p_index st s) as [l|]; auto.
    rewrite olist_norm. apply filter_ext_in. intros g Hg. f_equal.
    rewrite emptied_ogs, x_ogs1. simpl.
    destruct (nmem a (mem_of st (s, g))) eqn:E; simpl; [|apply andb_false_r].
    apply nmem_In in E. apply (i_rmem _ I) in E. rewrite x_rel in E. apply kmem_In in E. rewrite E. auto.
  Qed.

  Lemma nrem_nil_iff l : NoDup l -> nrem a l = [] <-> (l = [] \/ l = [a]).
  Proof.
    intros ND. split.
    - intros E. destruct l as [|x l]; auto. right.
      assert (X : forall y, In y (x :: l) -> y = a).
      { intros y Hy. destruct (N.eq_dec y a); auto.
        assert (In y (nrem a (x :: l))) by (apply In_nrem; auto). rewrite E in H. destruct H. }
      assert (x = a) by (apply X; left; auto). subst.
      destruct l as [|y l]; auto. assert (y = a) by (apply X; right; left; auto). subst.
      inversion ND; subst. exfalso. apply H1. left; auto.
    - intros [->| ->]; auto. unfold nrem; simpl. rewrite N.eqb_refl. auto.
  Qed.

  Lemma inv_exit_some : inv x_st'.
  Proof.
    constructor.
    - intros s g. rewrite x_mem, x_index, filter_In, (i_index _ I).
      rewrite negb_true_iff, andb_false_iff, nmem_nIn, null_false.
      split.
      + intros [Hne [Hn|Hn]]; auto. rewrite nrem_notin; auto.
      + intros H. split; [intros E; rewrite E in H; apply H; reflexivity|]. right; auto.
    - intros b k. rewrite x_mem, x_relof, In_nrem. ncase a b; simpl; [tauto|].
      rewrite (i_rmem _ I). intuition.
    - intros b k. rewrite x_lis, x_relof, In_nrem. ncase a b; simpl; [tauto|].
      rewrite (i_rgmon _ I). intuition.
    - intros b s. rewrite x_world, x_relof, In_nrem. ncase a b; simpl; [tauto|].
      rewrite (i_rwmon _ I). intuition.
    - simpl. intros b. unfold nupd. ncase a b; auto. apply (i_dead _ I).
    - intros k. rewrite x_mem. apply NoDup_nrem, (i_nd_mem _ I).
    - intros k. rewrite x_lis. apply NoDup_nrem, (i_nd_lis _ I).
    - intros s. rewrite x_world. apply NoDup_nrem, (i_nd_world _ I).
    - intros s. rewrite x_index. apply NoDup_filter, (i_nd_index _ I).
    - intros b. rewrite x_relof. ncase a b; simpl; [constructor|apply (i_nd_rmem _ I)].
    - simpl. intros k H. apply (i_mkeys _ I). intros E. apply H.
      unfold x_map2, x_map1. rewrite E. simpl. destruct (kmem k (r_gmon r)), (kmem k (r_mem r)); auto.
    - simpl. intros k. unfold x_map2.
      assert (X : x_map1 k <> Some (mkG [] [])).
      { unfold x_map1. destruct (kmem k (r_gmon r)); [apply gclean_ne|]; apply (i_noempty _ I). }
      destruct (kmem k (r_mem r)); auto. apply lclean_ne; auto.
    - simpl. intros s. unfold x_world1. destruct (nmem s (r_wmon r)); [apply wclean_ne|apply (i_wnoempty _ I)].
    - simpl. intros s. unfold x_idx2. destruct (p_index st s); [apply norm_list_ne|congruence].
  Qed.
End Exit.

Lemma exit_some st a r : p_dead st a = false -> p_rels st a = Some r ->
  fst (exit_ st a) = x_st' st a r.
Proof. intros D R. unfold exit_. rewrite D, R. reflexivity. Qed.

Lemma inv_exit st a : inv st -> inv (fst (exit_ st a)).
Proof.
  intros I. destruct (p_dead st a) eqn:D; [unfold exit_; rewrite D; exact I|].
  destruct (p_rels st a) as [r|] eqn:R.
  - rewrite (exit_some _ _ r); auto. apply inv_exit_some; auto.
  - unfold exit_. rewrite D, R. simpl.
    constructor; try apply I. simpl. intros b. unfold nupd. ncase a b; auto. apply (i_dead _ I).
Qed.

Theorem inv_step st o : inv st -> inv (fst (step st o)).
Proof.
  intros I. destruct o; simpl.
  - apply inv_join; auto. - apply inv_leave; auto. - apply inv_monitor; auto.
  - apply inv_monitor_scope; auto. - apply inv_demonitor; auto. - apply inv_demonitor_scope; auto.
  - apply inv_exit; auto.
Qed.

Lemma run_app ops o : run (ops ++ [o]) = fst (step (run ops) o).
Proof. unfold run. rewrite fold_left_app. reflexivity. Qed.

Theorem inv_run ops : inv (run ops).
Proof.
  induction ops as [|o ops IH] using rev_ind; [apply inv0|]. rewrite run_app. apply inv_step; auto.
Qed.
