(* Proofs about the atomic-step model of process groups (Pg/Model.v). *)
From Coq Require Import List NArith Bool Lia.
From RV Require Import Pg.Model.
Import ListNotations.
Local Open Scope N_scope.

(* ---------- basics ---------- *)
Lemma keqb_spec a b : reflect (a = b) (keqb a b).
Proof.
  destruct a as [a1 a2], b as [b1 b2]; unfold keqb; simpl.
  destruct (N.eqb_spec a1 b1), (N.eqb_spec a2 b2); simpl; constructor; congruence.
Qed.
Lemma keqb_refl k : keqb k k = true.
Proof. destruct (keqb_spec k k); congruence. Qed.
Lemma keqb_true a b : keqb a b = true <-> a = b.
Proof. destruct (keqb_spec a b); split; congruence. Qed.
Lemma keqb_false a b : keqb a b = false <-> a <> b.
Proof. destruct (keqb_spec a b); split; congruence. Qed.

Lemma nmem_In x l : nmem x l = true <-> In x l.
Proof.
  unfold nmem; rewrite existsb_exists; split.
  - intros [y [Hy E]]. apply N.eqb_eq in E; subst; auto.
  - intros H; exists x; split; auto. apply N.eqb_refl.
Qed.
Lemma nmem_nIn x l : nmem x l = false <-> ~ In x l.
Proof. rewrite <- nmem_In. destruct (nmem x l); split; congruence. Qed.
Lemma kmem_In x l : kmem x l = true <-> In x l.
Proof.
  unfold kmem; rewrite existsb_exists; split.
  - intros [y [Hy E]]. apply keqb_true in E; subst; auto.
  - intros H; exists x; split; auto. apply keqb_refl.
Qed.
Lemma kmem_nIn x l : kmem x l = false <-> ~ In x l.
Proof. rewrite <- kmem_In. destruct (kmem x l); split; congruence. Qed.

Lemma null_nil {A} (l : list A) : null l = true <-> l = [].
Proof. destruct l; simpl; split; congruence. Qed.
Lemma null_false {A} (l : list A) : null l = false <-> l <> [].
Proof. destruct l; simpl; split; congruence. Qed.

Lemma NoDup_snoc {A} (x : A) l : NoDup l -> ~ In x l -> NoDup (l ++ [x]).
Proof.
  induction l as [|y l IH]; simpl; intros H N; [repeat constructor; auto|].
  inversion H; subst. constructor.
  - rewrite in_app_iff; simpl. intuition.
  - apply IH; auto.
Qed.

Lemma In_nadd y x l : In y (nadd x l) <-> y = x \/ In y l.
Proof.
  unfold nadd. destruct (nmem x l) eqn:E.
  - apply nmem_In in E. split; [auto|intros [->|]; auto].
  - rewrite in_app_iff; simpl; intuition.
Qed.
Lemma NoDup_nadd x l : NoDup l -> NoDup (nadd x l).
Proof.
  unfold nadd; intros H. destruct (nmem x l) eqn:E; auto.
  apply nmem_nIn in E. apply NoDup_snoc; auto.
Qed.
Lemma In_nrem y x l : In y (nrem x l) <-> In y l /\ y <> x.
Proof.
  unfold nrem; rewrite filter_In, negb_true_iff, N.eqb_neq. intuition.
Qed.
Lemma NoDup_nrem x l : NoDup l -> NoDup (nrem x l).
Proof. apply NoDup_filter. Qed.
Lemma nrem_notin x l : ~ In x l -> nrem x l = l.
Proof.
  unfold nrem; induction l as [|y l IH]; simpl; intros H; auto.
  destruct (N.eqb_spec x y); simpl; [subst; tauto|]. f_equal; apply IH; tauto.
Qed.
Lemma In_kadd y x l : In y (kadd x l) <-> y = x \/ In y l.
Proof.
  unfold kadd. destruct (kmem x l) eqn:E.
  - apply kmem_In in E. split; [auto|intros [->|]; auto].
  - rewrite in_app_iff; simpl; intuition.
Qed.
Lemma NoDup_kadd x l : NoDup l -> NoDup (kadd x l).
Proof.
  unfold kadd; intros H. destruct (kmem x l) eqn:E; auto.
  apply kmem_nIn in E. apply NoDup_snoc; auto.
Qed.
Lemma In_krem y x l : In y (krem x l) <-> In y l /\ y <> x.
Proof.
  unfold krem; rewrite filter_In, negb_true_iff, keqb_false. intuition.
Qed.
Lemma NoDup_krem x l : NoDup l -> NoDup (krem x l).
Proof. apply NoDup_filter. Qed.

Lemma In_fold_nadd y kept m :
  In y (fold_left (fun m a => nadd a m) kept m) <-> In y m \/ In y kept.
Proof.
  revert m; induction kept as [|a kept IH]; simpl; intros m; [tauto|].
  rewrite IH, In_nadd. intuition.
Qed.
Lemma NoDup_fold_nadd kept m :
  NoDup m -> NoDup (fold_left (fun m a => nadd a m) kept m).
Proof.
  revert m; induction kept as [|a kept IH]; simpl; intros m H; auto.
  apply IH, NoDup_nadd, H.
Qed.

(* ---------- the invariant of quiescent states (Appendix C: P1, P2, P4, P5) ---------- *)
Record inv (st : pg) : Prop := mkInv {
  i_index : forall s g, In g (index_of st s) <-> mem_of st (s, g) <> [];
  i_rmem : forall a k, In k (r_mem (rel_of st a)) <-> In a (mem_of st k);
  i_rgmon : forall a k, In k (r_gmon (rel_of st a)) <-> In a (lis_of st k);
  i_rwmon : forall a s, In s (r_wmon (rel_of st a)) <-> In a (world_of st s);
  i_dead : forall a, p_dead st a = true -> p_rels st a = None;
  i_nd_mem : forall k, NoDup (mem_of st k);
  i_nd_lis : forall k, NoDup (lis_of st k);
  i_nd_world : forall s, NoDup (world_of st s);
  i_nd_index : forall s, NoDup (index_of st s);
  i_nd_rmem : forall a, NoDup (r_mem (rel_of st a));
  i_mkeys : forall k, p_map st k <> None -> In k (p_mkeys st);
  i_noempty : forall k, p_map st k <> Some (mkG [] []);
  i_wnoempty : forall s, p_world st s <> Some [];
  i_inoempty : forall s, p_index st s <> Some [];
  i_nd_rgmon : forall a, NoDup (r_gmon (rel_of st a));
  i_nd_rwmon : forall a, NoDup (r_wmon (rel_of st a)) }.

Lemma inv0 : inv pg0.
Proof.
  constructor; unfold pg0, index_of, mem_of, lis_of, gs_of, world_of, rel_of; simpl;
    try (intros; constructor); try tauto; try congruence; intros; split; intros; try tauto; congruence.
Qed.

Lemma kupd_eq {V} (f : key -> V) k v : kupd f k v k = v.
Proof. unfold kupd; rewrite keqb_refl; auto. Qed.
Lemma kupd_neq {V} (f : key -> V) k v k' : k <> k' -> kupd f k v k' = f k'.
Proof. unfold kupd; intros H; apply keqb_false in H; rewrite H; auto. Qed.
Lemma nupd_eq {V} (f : N -> V) k v : nupd f k v k = v.
Proof. unfold nupd; rewrite N.eqb_refl; auto. Qed.
Lemma nupd_neq {V} (f : N -> V) k v k' : k <> k' -> nupd f k v k' = f k'.
Proof. unfold nupd; intros H; apply N.eqb_neq in H; rewrite H; auto. Qed.

Lemma dead_rel st a : inv st -> p_dead st a = true -> rel_of st a = empty_rel.
Proof. intros I H. unfold rel_of. rewrite (i_dead _ I a H). auto. Qed.

(* a dead actor is nowhere *)
Lemma dead_nowhere st a : inv st -> p_dead st a = true ->
  (forall k, ~ In a (mem_of st k)) /\ (forall k, ~ In a (lis_of st k)) /\
  (forall s, ~ In a (world_of st s)) /\ p_rels st a = None.
Proof.
  intros I H. pose proof (dead_rel _ _ I H) as R.
  repeat split; try (apply (i_dead _ I a H)); intros x Hx.
  - apply (i_rmem _ I) in Hx. rewrite R in Hx. destruct Hx.
  - apply (i_rgmon _ I) in Hx. rewrite R in Hx. destruct Hx.
  - apply (i_rwmon _ I) in Hx. rewrite R in Hx. destruct Hx.
Qed.

Definition ogs (e : option gstate) : gstate := match e with Some x => x | None => mkG [] [] end.
Lemma ogs_norm m l : ogs (norm_entry m l) = mkG m l.
Proof.
  unfold norm_entry. destruct (null m && null l) eqn:E; auto. simpl.
  apply andb_true_iff in E. destruct E as [A B]. apply null_nil in A, B. subst; auto.
Qed.
Definition olist {A} (e : option (list A)) : list A := match e with Some x => x | None => [] end.
Lemma olist_norm l : olist (norm_list l) = l.
Proof. unfold norm_list. destruct l; auto. Qed.
Lemma norm_entry_ne m l : norm_entry m l <> Some (mkG [] []).
Proof.
  unfold norm_entry. destruct (null m && null l) eqn:E; [congruence|].
  intros H; inversion H; subst. discriminate.
Qed.
Lemma norm_list_ne l : norm_list l <> Some [].
Proof. unfold norm_list; destruct l; simpl; congruence. Qed.

Ltac kcase a b := let e := fresh "e" in destruct (keqb_spec a b) as [e|e]; [try (inversion e; clear e); subst|].
Ltac ncase a b := destruct (N.eqb_spec a b); [subst|].

Lemma filter_nil_null {A} (f : A -> bool) l : null (filter f l) = true -> forall x, In x l -> f x = false.
Proof.
  intros H x Hx. apply null_nil in H. destruct (f x) eqn:E; auto.
  assert (In x (filter f l)) by (apply filter_In; auto). rewrite H in H0. destruct H0.
Qed.

(* ---------- join ---------- *)
Lemma inv_join st s g acts : inv st -> inv (fst (join st s g acts)).
Proof.
  intros I. unfold join.
  set (kept := filter (fun a => negb (p_dead st a)) acts).
  destruct (null kept) eqn:EK; [exact I|].
  apply null_false in EK.
  assert (Hkept : forall a, In a kept -> p_dead st a = false).
  { intros a Ha. apply filter_In in Ha. destruct Ha as [_ Ha]. apply negb_true_iff in Ha; auto. }
  destruct kept as [|a0 kept0] eqn:EQK; [congruence|]. rewrite <- EQK in *. clear EK.
  assert (Ha0 : In a0 kept) by (rewrite EQK; left; auto).
  simpl. constructor; simpl.
  - (* index *)
    intros s' g'. unfold index_of, mem_of, gs_of; simpl. unfold index_add, nupd, kupd.
    ncase s s'.
    + simpl. rewrite In_nadd. kcase (s', g) (s', g').
      * simpl. split; [intros _ E|auto].
        assert (X : In a0 (fold_left (fun m a => nadd a m) kept (g_mem (gs_of st (s', g'))))) by (apply In_fold_nadd; auto).
        unfold gs_of in X. rewrite E in X. destruct X.
      * assert (g' <> g) by congruence.
        pose proof (i_index _ I s' g') as X. unfold index_of, mem_of, gs_of in X. rewrite <- X. intuition.
    + kcase (s, g) (s', g'); [congruence|]. apply (i_index _ I).
  - (* rmem *)
    intros a k. unfold rel_of, mem_of, gs_of; simpl. unfold kupd.
    pose proof (i_rmem _ I a k) as X. unfold rel_of, mem_of, gs_of in X.
    destruct (nmem a kept) eqn:EM.
    + apply nmem_In in EM. simpl. rewrite In_kadd. kcase (s, g) k; simpl.
      * rewrite In_fold_nadd. intuition.
      * rewrite <- X. unfold rel_of. intuition congruence.
    + apply nmem_nIn in EM. kcase (s, g) k; simpl; [|exact X].
      rewrite In_fold_nadd. unfold gs_of. rewrite X. intuition.
  - (* rgmon *)
    intros a k. unfold rel_of, lis_of, gs_of; simpl. unfold kupd.
    pose proof (i_rgmon _ I a k) as X. unfold rel_of, lis_of, gs_of in X.
    destruct (nmem a kept); simpl; (kcase (s, g) k; simpl; [|exact X]); exact X.
  - (* rwmon *)
    intros a s'. unfold rel_of; simpl.
    pose proof (i_rwmon _ I a s') as X. unfold rel_of in X.
    destruct (nmem a kept); simpl; exact X.
  - (* dead *)
    intros a Hd. destruct (nmem a kept) eqn:EM; [|apply (i_dead _ I); auto].
    apply nmem_In in EM. rewrite (Hkept _ EM) in Hd. discriminate.
  - intros k. unfold mem_of, gs_of; simpl. unfold kupd. kcase (s, g) k; simpl; [|apply (i_nd_mem _ I)].
    apply NoDup_fold_nadd. apply (i_nd_mem _ I (s, g)).
  - intros k. unfold lis_of, gs_of; simpl. unfold kupd. kcase (s, g) k; simpl; apply (i_nd_lis _ I).
  - apply (i_nd_world _ I).
  - intros s'. unfold index_of; simpl. unfold index_add, nupd. ncase s s'; [|apply (i_nd_index _ I)].
    simpl. apply NoDup_nadd. apply (i_nd_index _ I s').
  - intros a. unfold rel_of; simpl. destruct (nmem a kept); simpl; [|apply (i_nd_rmem _ I)].
    apply NoDup_kadd. apply (i_nd_rmem _ I a).
  - intros k. unfold kupd. kcase (s, g) k; [left; auto|]. intros H; right. apply (i_mkeys _ I); auto.
  - intros k. unfold kupd. kcase (s, g) k; [|apply (i_noempty _ I)].
    intros E; inversion E as [[E1 E2]].
    assert (X : In a0 (fold_left (fun m a => nadd a m) kept (g_mem (gs_of st (s, g))))) by (apply In_fold_nadd; auto).
    rewrite E1 in X. destruct X.
  - apply (i_wnoempty _ I).
  - intros s'. unfold index_add, nupd. ncase s s'; [|apply (i_inoempty _ I)].
    intros E; inversion E as [E1].
    assert (X : In g (nadd g (match p_index st s' with Some l => l | None => [] end))) by (apply In_nadd; auto).
    rewrite E1 in X. destruct X.
  - intros a. unfold rel_of; simpl. destruct (nmem a kept); simpl; apply (i_nd_rgmon _ I).
  - intros a. unfold rel_of; simpl. destruct (nmem a kept); simpl; apply (i_nd_rwmon _ I).
Qed.

(* ---------- leave ---------- *)
Definition orel (e : option rel) : rel := match e with Some r => r | None => empty_rel end.
Lemma gs_of_ogs st k : gs_of st k = ogs (p_map st k). Proof. reflexivity. Qed.
Lemma rel_of_orel st a : rel_of st a = orel (p_rels st a). Proof. reflexivity. Qed.
Lemma index_of_olist st s : index_of st s = olist (p_index st s). Proof. reflexivity. Qed.
Lemma world_of_olist st s : world_of st s = olist (p_world st s). Proof. reflexivity. Qed.

Lemma olist_index_rem idx s g s' :
  olist (index_rem idx s g s') = if N.eqb s s' then nrem g (olist (idx s')) else olist (idx s').
Proof.
  unfold index_rem. destruct (idx s) eqn:E.
  - unfold nupd. ncase s s'; auto. rewrite E. simpl.
    change (if null (nrem g l) then None else Some (nrem g l)) with (norm_list (nrem g l)).
    apply olist_norm.
  - ncase s s'; auto. rewrite E. reflexivity.
Qed.
Lemma index_rem_ne idx s g s' : idx s' <> Some [] -> index_rem idx s g s' <> Some [].
Proof.
  intros H. unfold index_rem. destruct (idx s) eqn:E; auto.
  unfold nupd. ncase s s'; auto.
  change (if null (nrem g l) then None else Some (nrem g l)) with (norm_list (nrem g l)).
  apply norm_list_ne.
Qed.
Lemma orel_map f e : f empty_rel = empty_rel -> orel (option_map f e) = f (orel e).
Proof. intros H. destruct e; simpl; auto. Qed.

Lemma In_filter_notin x acts l :
  In x (filter (fun y => negb (nmem y acts)) l) <-> In x l /\ ~ In x acts.
Proof. rewrite filter_In, negb_true_iff, nmem_nIn. tauto. Qed.

Lemma inv_leave st s g acts : inv st -> inv (fst (leave st s g acts)).
Proof.
  intros I. unfold leave. destruct (p_map st (s, g)) as [gs|] eqn:EG; [|exact I].
  set (mem' := filter (fun x => negb (nmem x acts)) (g_mem gs)).
  assert (Hgs : gs_of st (s, g) = gs) by (unfold gs_of; rewrite EG; auto).
  assert (Hmem : mem_of st (s, g) = g_mem gs) by (unfold mem_of; rewrite Hgs; auto).
  assert (Hlis : lis_of st (s, g) = g_lis gs) by (unfold lis_of; rewrite Hgs; auto).
  simpl.
  assert (Hm' : forall k, mem_of (mkPg (kupd (p_map st) (s, g) (norm_entry mem' (g_lis gs))) (p_mkeys st)
       (if null mem' then index_rem (p_index st) s g else p_index st) (p_world st)
       (fun a => if nmem a acts then option_map (rel_rem_mem (s, g)) (p_rels st a) else p_rels st a) (p_dead st)) k
       = if keqb (s, g) k then mem' else mem_of st k).
  { intros k. unfold mem_of at 1. rewrite gs_of_ogs. simpl. unfold kupd.
    destruct (keqb (s, g) k); auto. rewrite ogs_norm. auto. }
  assert (Hl' : forall k, lis_of (mkPg (kupd (p_map st) (s, g) (norm_entry mem' (g_lis gs))) (p_mkeys st)
       (if null mem' then index_rem (p_index st) s g else p_index st) (p_world st)
       (fun a => if nmem a acts then option_map (rel_rem_mem (s, g)) (p_rels st a) else p_rels st a) (p_dead st)) k
       = lis_of st k).
  { intros k. unfold lis_of at 1. rewrite gs_of_ogs. simpl. unfold kupd.
    kcase (s, g) k; auto. rewrite ogs_norm. auto. }
  assert (Hr' : forall a, rel_of (mkPg (kupd (p_map st) (s, g) (norm_entry mem' (g_lis gs))) (p_mkeys st)
       (if null mem' then index_rem (p_index st) s g else p_index st) (p_world st)
       (fun a => if nmem a acts then option_map (rel_rem_mem (s, g)) (p_rels st a) else p_rels st a) (p_dead st)) a
       = if nmem a acts then rel_rem_mem (s, g) (rel_of st a) else rel_of st a).
  { intros a. rewrite rel_of_orel. simpl. destruct (nmem a acts); auto. rewrite orel_map; auto. }
  constructor; try rewrite Hm'; try rewrite Hl'; try rewrite Hr'.
  - (* index *)
    intros s' g'. rewrite Hm'. rewrite index_of_olist. simpl.
    pose proof (i_index _ I s' g') as X. rewrite index_of_olist in X.
    destruct (null mem') eqn:EN.
    + rewrite olist_index_rem. apply null_nil in EN.
      ncase s s'.
      * rewrite In_nrem, X. kcase (s', g) (s', g'); [rewrite EN; intuition|].
        assert (g' <> g) by congruence. intuition.
      * kcase (s, g) (s', g'); [congruence|]. exact X.
    + apply null_false in EN. kcase (s, g) (s', g'); [|exact X].
      rewrite X. rewrite Hmem. split; auto. intros _ E. apply EN. subst mem'.
      rewrite E. reflexivity.
  - (* rmem *)
    intros a k. rewrite Hm', Hr'. pose proof (i_rmem _ I a k) as X.
    destruct (nmem a acts) eqn:EA.
    + apply nmem_In in EA. simpl. rewrite In_krem, X. kcase (s, g) k.
      * subst mem'. rewrite In_filter_notin. intuition.
      * intuition.
    + apply nmem_nIn in EA. kcase (s, g) k; [|exact X].
      subst mem'. rewrite In_filter_notin, X, Hmem. intuition.
  - intros a k. rewrite Hl', Hr'. pose proof (i_rgmon _ I a k) as X.
    destruct (nmem a acts); simpl; exact X.
  - intros a s'. rewrite Hr'. pose proof (i_rwmon _ I a s') as X.
    destruct (nmem a acts); simpl; exact X.
  - simpl. intros a Hd. rewrite (i_dead _ I a Hd). destruct (nmem a acts); auto.
  - intros k. rewrite Hm'. kcase (s, g) k; [|apply (i_nd_mem _ I)].
    subst mem'. apply NoDup_filter. rewrite <- Hmem. apply (i_nd_mem _ I).
  - intros k. rewrite Hl'. apply (i_nd_lis _ I).
  - apply (i_nd_world _ I).
  - intros s'. rewrite index_of_olist. simpl. destruct (null mem').
    + rewrite olist_index_rem. ncase s s'; [apply NoDup_nrem|]; apply (i_nd_index _ I).
    + apply (i_nd_index _ I).
  - intros a. rewrite Hr'. destruct (nmem a acts); simpl; [apply NoDup_krem|]; apply (i_nd_rmem _ I).
  - simpl. intros k. unfold kupd. kcase (s, g) k.
    + intros _. apply (i_mkeys _ I). congruence.
    + apply (i_mkeys _ I).
  - simpl. intros k. unfold kupd. kcase (s, g) k; [apply norm_entry_ne|apply (i_noempty _ I)].
  - apply (i_wnoempty _ I).
  - simpl. intros s'. destruct (null mem'); [apply index_rem_ne|]; apply (i_inoempty _ I).
  - intros a. rewrite Hr'. destruct (nmem a acts); simpl; apply (i_nd_rgmon _ I).
  - intros a. rewrite Hr'. destruct (nmem a acts); simpl; apply (i_nd_rwmon _ I).
Qed.

(* ---------- monitor / monitor_scope / demonitor / demonitor_scope ---------- *)
Lemma orel_create rs a b : orel (rels_create rs a b) = orel (rs b).
Proof.
  unfold rels_create. destruct (rs a) eqn:E; auto. unfold nupd. ncase a b; auto. rewrite E. auto.
Qed.
Lemma orel_remove_empty rs a b : orel (rels_remove_empty rs a b) = orel (rs b).
Proof.
  unfold rels_remove_empty. destruct (rs a) eqn:E; auto.
  destruct (rel_is_empty r) eqn:EE; auto. unfold nupd. ncase a b; auto. rewrite E. simpl.
  unfold rel_is_empty in EE. apply andb_true_iff in EE. destruct EE as [EE C].
  apply andb_true_iff in EE. destruct EE as [A B].
  apply null_nil in A, B, C. destruct r; simpl in *; subst; auto.
Qed.
Lemma ogs_remove_empty m k k' : ogs (map_remove_empty m k k') = ogs (m k').
Proof.
  unfold map_remove_empty. destruct (m k) eqn:E; auto.
  destruct (null (g_mem g) && null (g_lis g)) eqn:EE; auto. unfold kupd. kcase k k'; auto.
  rewrite E. simpl. apply andb_true_iff in EE. destruct EE as [A B]. apply null_nil in A, B.
  destruct g; simpl in *; subst; auto.
Qed.
Lemma map_remove_empty_ne m k k' :
  (k <> k' -> m k' <> Some (mkG [] [])) -> map_remove_empty m k k' <> Some (mkG [] []).
Proof.
  intros H. unfold map_remove_empty. destruct (m k) eqn:E.
  - destruct (null (g_mem g) && null (g_lis g)) eqn:EE.
    + unfold kupd. kcase k k'; [congruence|auto].
    + kcase k k'; auto. rewrite E. intros X; inversion X; subst. discriminate.
  - kcase k k'; auto. congruence.
Qed.
Lemma olist_world_remove_empty w s s' : olist (world_remove_empty w s s') = olist (w s').
Proof.
  unfold world_remove_empty. destruct (w s) eqn:E; auto. destruct (null l) eqn:EE; auto.
  unfold nupd. ncase s s'; auto. rewrite E. apply null_nil in EE. subst; auto.
Qed.
Lemma world_remove_empty_ne w s s' :
  (s <> s' -> w s' <> Some []) -> world_remove_empty w s s' <> Some [].
Proof.
  intros H. unfold world_remove_empty. destruct (w s) eqn:E.
  - destruct (null l) eqn:EE.
    + unfold nupd. ncase s s'; [congruence|auto].
    + ncase s s'; auto. rewrite E. intros X; inversion X; subst. discriminate.
  - ncase s s'; auto. congruence.
Qed.

Lemma inv_same st st' : inv st ->
  (forall k, gs_of st' k = gs_of st k) -> (forall s, world_of st' s = world_of st s) ->
  (forall a, rel_of st' a = rel_of st a) -> p_index st' = p_index st -> p_dead st' = p_dead st ->
  (forall a, p_dead st a = true -> p_rels st' a = None) ->
  (forall k, p_map st' k <> None -> In k (p_mkeys st')) ->
  (forall k, p_map st' k <> Some (mkG [] [])) -> (forall s, p_world st' s <> Some []) -> inv st'.
Proof.
  intros I G W R X D Hd Hk He Hw.
  constructor; unfold mem_of, lis_of, index_of; intros; repeat rewrite G; repeat rewrite W;
    repeat rewrite R; repeat rewrite X; auto; try apply I; auto.
  rewrite D in *. auto.
Qed.

Lemma inv_monitor st g a : inv st -> inv (monitor st g a).
Proof.
  intros I. unfold monitor. set (k := (DEFAULT, g)).
  assert (Rg : rel_get (rels_create (p_rels st) a) a = rel_of st a).
  { unfold rel_get. change (orel (rels_create (p_rels st) a a) = rel_of st a). rewrite orel_create. auto. }
  destruct (p_dead st a) eqn:ED; simpl.
  - (* stopping actor: nothing registered, temporary entries removed again *)
    apply (inv_same st); auto; simpl.
    + intros k'. rewrite !gs_of_ogs. simpl. rewrite ogs_remove_empty. unfold kupd.
      kcase k k'; auto.
    + intros b. rewrite !rel_of_orel. simpl. rewrite orel_remove_empty, orel_create. auto.
    + intros b Hb. pose proof (i_dead _ I b Hb) as Nb.
      unfold rels_remove_empty, rels_create. rewrite (i_dead _ I a ED).
      rewrite nupd_eq. simpl. unfold nupd. ncase a b; auto.
    + intros k'. intros H. kcase k k'; [left; auto|right].
      apply (i_mkeys _ I). intros E. apply H. unfold map_remove_empty.
      rewrite kupd_eq. destruct (null (g_mem (gs_of st k)) && null (g_lis (gs_of st k)));
        unfold kupd; apply keqb_false in e; try rewrite e; auto.
    + intros k'. apply map_remove_empty_ne. intros Hn. rewrite kupd_neq; auto. apply (i_noempty _ I).
    + apply (i_wnoempty _ I).
  - assert (Hm : forall k', mem_of (mkPg (kupd (p_map st) k (Some (mkG (g_mem (gs_of st k)) (nadd a (g_lis (gs_of st k))))))
        (k :: p_mkeys st) (p_index st) (p_world st)
        (nupd (rels_create (p_rels st) a) a (Some (rel_add_gmon k (rel_get (rels_create (p_rels st) a) a)))) (p_dead st)) k'
        = mem_of st k').
    { intros k'. unfold mem_of, gs_of. simpl. unfold kupd. kcase k k'; auto. }
    assert (Hl : forall k', lis_of (mkPg (kupd (p_map st) k (Some (mkG (g_mem (gs_of st k)) (nadd a (g_lis (gs_of st k))))))
        (k :: p_mkeys st) (p_index st) (p_world st)
        (nupd (rels_create (p_rels st) a) a (Some (rel_add_gmon k (rel_get (rels_create (p_rels st) a) a)))) (p_dead st)) k'
        = if keqb k k' then nadd a (lis_of st k) else lis_of st k').
    { intros k'. unfold lis_of, gs_of. simpl. unfold kupd. destruct (keqb k k'); auto. }
    assert (Hr : forall b, rel_of (mkPg (kupd (p_map st) k (Some (mkG (g_mem (gs_of st k)) (nadd a (g_lis (gs_of st k))))))
        (k :: p_mkeys st) (p_index st) (p_world st)
        (nupd (rels_create (p_rels st) a) a (Some (rel_add_gmon k (rel_get (rels_create (p_rels st) a) a)))) (p_dead st)) b
        = if N.eqb a b then rel_add_gmon k (rel_of st a) else rel_of st b).
    { intros b. rewrite rel_of_orel. simpl. unfold nupd. ncase a b; simpl; [rewrite Rg; auto|].
      rewrite orel_create. auto. }
    constructor; try rewrite Hm; try rewrite Hl; try rewrite Hr.
    + intros s' g'. rewrite Hm. apply (i_index _ I).
    + intros b k'. rewrite Hm, Hr. ncase a b; simpl; apply (i_rmem _ I).
    + intros b k'. rewrite Hl, Hr. pose proof (i_rgmon _ I b k') as X.
      ncase a b; simpl.
      * rewrite In_kadd. kcase k k'; [rewrite In_nadd; intuition|]. rewrite X. intuition congruence.
      * kcase k k'; [|exact X]. rewrite In_nadd, X. intuition congruence.
    + intros b s'. rewrite Hr. ncase a b; simpl; apply (i_rwmon _ I).
    + simpl. intros b Hb. unfold nupd. ncase a b; [congruence|].
      unfold rels_create. destruct (p_rels st a); [apply (i_dead _ I); auto|].
      rewrite nupd_neq; auto. apply (i_dead _ I); auto.
    + intros k'. rewrite Hm. apply (i_nd_mem _ I).
    + intros k'. rewrite Hl. kcase k k'; [apply NoDup_nadd|]; apply (i_nd_lis _ I).
    + apply (i_nd_world _ I).
    + apply (i_nd_index _ I).
    + intros b. rewrite Hr. ncase a b; simpl; apply (i_nd_rmem _ I).
    + simpl. intros k'. unfold kupd. kcase k k'; [left; auto|]. intros H; right. apply (i_mkeys _ I); auto.
    + simpl. intros k'. unfold kupd. kcase k k'; [|apply (i_noempty _ I)].
      intros E. inversion E as [[E1 E2]].
      assert (X : In a (nadd a (g_lis (gs_of st k)))) by (apply In_nadd; auto).
      rewrite E2, E1 in X. destruct X.
    + apply (i_wnoempty _ I).
    + apply (i_inoempty _ I).
    + intros b. rewrite Hr. ncase a b; simpl; [apply NoDup_kadd|]; apply (i_nd_rgmon _ I).
    + intros b. rewrite Hr. ncase a b; simpl; apply (i_nd_rwmon _ I).
Qed.

Lemma inv_monitor_scope st s a : inv st -> inv (monitor_scope st s a).
Proof.
  intros I. unfold monitor_scope.
  assert (Rg : rel_get (rels_create (p_rels st) a) a = rel_of st a).
  { unfold rel_get. change (orel (rels_create (p_rels st) a a) = rel_of st a). rewrite orel_create. auto. }
  destruct (p_dead st a) eqn:ED; simpl.
  - apply (inv_same st); auto; simpl.
    + intros s'. rewrite !world_of_olist. simpl. rewrite olist_world_remove_empty. unfold nupd.
      ncase s s'; auto.
    + intros b. rewrite !rel_of_orel. simpl. rewrite orel_remove_empty, orel_create. auto.
    + intros b Hb. pose proof (i_dead _ I b Hb) as Nb.
      unfold rels_remove_empty, rels_create. rewrite (i_dead _ I a ED).
      rewrite nupd_eq. simpl. unfold nupd. ncase a b; auto.
    + apply (i_mkeys _ I).
    + apply (i_noempty _ I).
    + intros s'. apply world_remove_empty_ne. intros Hn. rewrite nupd_neq; auto. apply (i_wnoempty _ I).
  - assert (Hw : forall s', world_of (mkPg (p_map st) (p_mkeys st) (p_index st)
        (nupd (p_world st) s (Some (nadd a (world_of st s))))
        (nupd (rels_create (p_rels st) a) a (Some (rel_add_wmon s (rel_get (rels_create (p_rels st) a) a)))) (p_dead st)) s'
        = if N.eqb s s' then nadd a (world_of st s) else world_of st s').
    { intros s'. unfold world_of at 1. simpl. unfold nupd. destruct (N.eqb s s'); auto. }
    assert (Hr : forall b, rel_of (mkPg (p_map st) (p_mkeys st) (p_index st)
        (nupd (p_world st) s (Some (nadd a (world_of st s))))
        (nupd (rels_create (p_rels st) a) a (Some (rel_add_wmon s (rel_get (rels_create (p_rels st) a) a)))) (p_dead st)) b
        = if N.eqb a b then rel_add_wmon s (rel_of st a) else rel_of st b).
    { intros b. rewrite rel_of_orel. simpl. unfold nupd. ncase a b; simpl; [rewrite Rg; auto|].
      rewrite orel_create. auto. }
    constructor; try rewrite Hw; try rewrite Hr.
    + apply (i_index _ I).
    + intros b k'. rewrite Hr. ncase a b; simpl; apply (i_rmem _ I).
    + intros b k'. rewrite Hr. ncase a b; simpl; apply (i_rgmon _ I).
    + intros b s'. rewrite Hw, Hr. pose proof (i_rwmon _ I b s') as X.
      ncase a b; simpl.
      * rewrite In_nadd. ncase s s'; [rewrite In_nadd; intuition|]. rewrite X. intuition congruence.
      * ncase s s'; [|exact X]. rewrite In_nadd, X. intuition congruence.
    + simpl. intros b Hb. unfold nupd. ncase a b; [congruence|].
      unfold rels_create. destruct (p_rels st a); [apply (i_dead _ I); auto|].
      rewrite nupd_neq; auto. apply (i_dead _ I); auto.
    + apply (i_nd_mem _ I).
    + apply (i_nd_lis _ I).
    + intros s'. rewrite Hw. ncase s s'; [apply NoDup_nadd|]; apply (i_nd_world _ I).
    + apply (i_nd_index _ I).
    + intros b. rewrite Hr. ncase a b; simpl; apply (i_nd_rmem _ I).
    + apply (i_mkeys _ I).
    + apply (i_noempty _ I).
    + simpl. intros s'. unfold nupd. ncase s s'; [|apply (i_wnoempty _ I)].
      intros E. inversion E as [E1].
      assert (X : In a (nadd a (world_of st s'))) by (apply In_nadd; auto).
      rewrite E1 in X. destruct X.
    + apply (i_inoempty _ I).
    + intros b. rewrite Hr. ncase a b; simpl; apply (i_nd_rgmon _ I).
    + intros b. rewrite Hr. ncase a b; simpl; [apply NoDup_nadd|]; apply (i_nd_rwmon _ I).
Qed.

Lemma inv_demonitor st g a : inv st -> inv (demonitor st g a).
Proof.
  intros I. unfold demonitor. set (k := (DEFAULT, g)).
  set (rels' := nupd (p_rels st) a (option_map (rel_rem_gmon k) (p_rels st a))).
  assert (Hr : forall b, orel (rels' b) = if N.eqb a b then rel_rem_gmon k (rel_of st a) else rel_of st b).
  { intros b. unfold rels', nupd. ncase a b; auto. rewrite orel_map; auto. }
  assert (Hd : forall b, p_dead st b = true -> rels' b = None).
  { intros b Hb. unfold rels', nupd. ncase a b; [|apply (i_dead _ I); auto].
    rewrite (i_dead _ I b Hb). auto. }
  destruct (p_map st k) as [gs|] eqn:EG.
  - assert (Hgs : gs_of st k = gs) by (unfold gs_of; rewrite EG; auto).
    assert (Hm : forall k', mem_of (mkPg (kupd (p_map st) k (norm_entry (g_mem gs) (nrem a (g_lis gs))))
         (p_mkeys st) (p_index st) (p_world st) rels' (p_dead st)) k' = mem_of st k').
    { intros k'. unfold mem_of at 1. rewrite gs_of_ogs. simpl. unfold kupd. kcase k k'; auto.
      rewrite ogs_norm. unfold mem_of. try rewrite Hgs. auto. }
    assert (Hl : forall k', lis_of (mkPg (kupd (p_map st) k (norm_entry (g_mem gs) (nrem a (g_lis gs))))
         (p_mkeys st) (p_index st) (p_world st) rels' (p_dead st)) k'
         = if keqb k k' then nrem a (lis_of st k) else lis_of st k').
    { intros k'. unfold lis_of at 1. rewrite gs_of_ogs. simpl. unfold kupd. destruct (keqb k k'); auto.
      rewrite ogs_norm. unfold lis_of. rewrite Hgs. auto. }
    constructor; try rewrite Hm; try rewrite Hl; try (rewrite rel_of_orel; simpl; rewrite Hr).
    + intros s' g'. rewrite Hm. apply (i_index _ I).
    + intros b k'. rewrite Hm, rel_of_orel. simpl. rewrite Hr. ncase a b; simpl; apply (i_rmem _ I).
    + intros b k'. rewrite Hl, rel_of_orel. simpl. rewrite Hr. pose proof (i_rgmon _ I b k') as X.
      ncase a b; simpl.
      * rewrite In_krem, X. kcase k k'; [rewrite In_nrem; intuition|]. intuition congruence.
      * kcase k k'; [|exact X]. rewrite In_nrem, X. intuition congruence.
    + intros b s'. rewrite rel_of_orel. simpl. rewrite Hr. ncase a b; simpl; apply (i_rwmon _ I).
    + exact Hd.
    + intros k'. rewrite Hm. apply (i_nd_mem _ I).
    + intros k'. rewrite Hl. kcase k k'; [apply NoDup_nrem|]; apply (i_nd_lis _ I).
    + apply (i_nd_world _ I).
    + apply (i_nd_index _ I).
    + intros b. rewrite rel_of_orel. simpl. rewrite Hr. ncase a b; simpl; apply (i_nd_rmem _ I).
    + simpl. intros k'. unfold kupd. kcase k k'; [|apply (i_mkeys _ I)].
      intros _. apply (i_mkeys _ I). congruence.
    + simpl. intros k'. unfold kupd. kcase k k'; [apply norm_entry_ne|apply (i_noempty _ I)].
    + apply (i_wnoempty _ I).
    + apply (i_inoempty _ I).
    + intros b. rewrite rel_of_orel. simpl. rewrite Hr. ncase a b; simpl; [apply NoDup_krem|]; apply (i_nd_rgmon _ I).
    + intros b. rewrite rel_of_orel. simpl. rewrite Hr. ncase a b; simpl; apply (i_nd_rwmon _ I).
  - (* no entry: a is not a listener of k, so k is not among its group monitors *)
    assert (Hk : ~ In k (r_gmon (rel_of st a))).
    { rewrite (i_rgmon _ I). unfold lis_of, gs_of. rewrite EG. simpl. tauto. }
    assert (Hr2 : forall b, orel (rels' b) = rel_of st b).
    { intros b. rewrite Hr. ncase a b; auto. unfold rel_rem_gmon.
      assert (E : krem k (r_gmon (rel_of st b)) = r_gmon (rel_of st b)).
      { unfold krem. clear - Hk. induction (r_gmon (rel_of st b)) as [|y l IH]; simpl in *; auto.
        kcase k y; simpl; [tauto|]. f_equal. apply IH. tauto. }
      rewrite E. destruct (rel_of st b); auto. }
    apply (inv_same st); auto; try apply I.
Qed.

Lemma inv_demonitor_scope st s a : inv st -> inv (demonitor_scope st s a).
Proof.
  intros I. unfold demonitor_scope.
  set (rels' := nupd (p_rels st) a (option_map (rel_rem_wmon s) (p_rels st a))).
  assert (Hr : forall b, orel (rels' b) = if N.eqb a b then rel_rem_wmon s (rel_of st a) else rel_of st b).
  { intros b. unfold rels', nupd. ncase a b; auto. rewrite orel_map; auto. }
  assert (Hd : forall b, p_dead st b = true -> rels' b = None).
  { intros b Hb. unfold rels', nupd. ncase a b; [|apply (i_dead _ I); auto].
    rewrite (i_dead _ I b Hb). auto. }
  destruct (p_world st s) as [ls|] eqn:EG.
  - assert (Hls : world_of st s = ls) by (unfold world_of; rewrite EG; auto).
    assert (Hw : forall s', world_of (mkPg (p_map st) (p_mkeys st) (p_index st)
         (nupd (p_world st) s (norm_list (nrem a ls))) rels' (p_dead st)) s'
         = if N.eqb s s' then nrem a (world_of st s) else world_of st s').
    { intros s'. rewrite world_of_olist. simpl. unfold nupd. destruct (N.eqb s s'); auto.
      rewrite olist_norm, Hls. auto. }
    constructor; try rewrite Hw; try (rewrite rel_of_orel; simpl; rewrite Hr).
    + apply (i_index _ I).
    + intros b k'. rewrite rel_of_orel. simpl. rewrite Hr. ncase a b; simpl; apply (i_rmem _ I).
    + intros b k'. rewrite rel_of_orel. simpl. rewrite Hr. ncase a b; simpl; apply (i_rgmon _ I).
    + intros b s'. rewrite Hw, rel_of_orel. simpl. rewrite Hr. pose proof (i_rwmon _ I b s') as X.
      ncase a b; simpl.
      * rewrite In_nrem, X. ncase s s'; [rewrite In_nrem; intuition|]. intuition congruence.
      * ncase s s'; [|exact X]. rewrite In_nrem, X. intuition congruence.
    + exact Hd.
    + apply (i_nd_mem _ I).
    + apply (i_nd_lis _ I).
    + intros s'. rewrite Hw. ncase s s'; [apply NoDup_nrem|]; apply (i_nd_world _ I).
    + apply (i_nd_index _ I).
    + intros b. rewrite rel_of_orel. simpl. rewrite Hr. ncase a b; simpl; apply (i_nd_rmem _ I).
    + apply (i_mkeys _ I).
    + apply (i_noempty _ I).
    + simpl. intros s'. unfold nupd. ncase s s'; [apply norm_list_ne|apply (i_wnoempty _ I)].
    + apply (i_inoempty _ I).
    + intros b. rewrite rel_of_orel. simpl. rewrite Hr. ncase a b; simpl; apply (i_nd_rgmon _ I).
    + intros b. rewrite rel_of_orel. simpl. rewrite Hr. ncase a b; simpl; [apply NoDup_nrem|]; apply (i_nd_rwmon _ I).
  - assert (Hk : ~ In s (r_wmon (rel_of st a))).
    { rewrite (i_rwmon _ I). unfold world_of. rewrite EG. simpl. tauto. }
    assert (Hr2 : forall b, orel (rels' b) = rel_of st b).
    { intros b. rewrite Hr. ncase a b; auto. unfold rel_rem_wmon.
      rewrite nrem_notin; auto. destruct (rel_of st b); auto. }
    apply (inv_same st); auto; try apply I.
Qed.

(* ---------- exit ---------- *)
Lemma ogs_gclean a e : ogs (gclean a e) = mkG (g_mem (ogs e)) (nrem a (g_lis (ogs e))).
Proof. destruct e; simpl; auto. apply ogs_norm. Qed.
Lemma ogs_lclean a e : ogs (lclean a e) = mkG (nrem a (g_mem (ogs e))) (g_lis (ogs e)).
Proof.
  destruct e as [gs|]; simpl; auto. destruct (nmem a (g_mem gs)) eqn:E.
  - apply ogs_norm.
  - apply nmem_nIn in E. rewrite nrem_notin; auto. destruct gs; auto.
Qed.
Lemma olist_wclean a e : olist (wclean a e) = nrem a (olist e).
Proof. destruct e; simpl; auto. apply olist_norm. Qed.
Lemma gclean_ne a e : e <> Some (mkG [] []) -> gclean a e <> Some (mkG [] []).
Proof. destruct e; simpl; auto. intros _. apply norm_entry_ne. Qed.
Lemma lclean_ne a e : e <> Some (mkG [] []) -> lclean a e <> Some (mkG [] []).
Proof. destruct e; simpl; auto. destruct (nmem a (g_mem g)); auto. intros _. apply norm_entry_ne. Qed.
Lemma wclean_ne a e : wclean a e <> Some [].
Proof. destruct e; simpl; [apply norm_list_ne|congruence]. Qed.
Lemma emptied_ogs a e : emptied a e = nmem a (g_mem (ogs e)) && null (nrem a (g_mem (ogs e))).
Proof. destruct e; simpl; auto. Qed.

Section Exit.
  Variable st : pg.
  Variable a : N.
  Variable r : rel.
  Hypothesis I : inv st.
  Hypothesis Hr : p_rels st a = Some r.
  Hypothesis Halive : p_dead st a = false.

  Definition x_map1 := fun k => if kmem k (r_gmon r) then gclean a (p_map st k) else p_map st k.
  Definition x_world1 := fun s => if nmem s (r_wmon r) then wclean a (p_world st s) else p_world st s.
  Definition x_map2 := fun k => if kmem k (r_mem r) then lclean a (x_map1 k) else x_map1 k.
  Definition x_idx2 := fun s => match p_index st s with
    | Some l => norm_list (filter (fun g => negb (kmem (s, g) (r_mem r) && emptied a (x_map1 (s, g)))) l)
    | None => None end.
  Definition x_st' := mkPg x_map2 (p_mkeys st) x_idx2 x_world1 (nupd (p_rels st) a None) (nupd (p_dead st) a true).

  Lemma x_rel : rel_of st a = r.
  Proof. unfold rel_of. rewrite Hr. auto. Qed.

  Lemma x_ogs1 k : ogs (x_map1 k) = mkG (mem_of st k) (nrem a (lis_of st k)).
  Proof.
    unfold x_map1. destruct (kmem k (r_gmon r)) eqn:E.
    - rewrite ogs_gclean. reflexivity.
    - apply kmem_nIn in E. rewrite <- x_rel in E. rewrite (i_rgmon _ I) in E.
      rewrite nrem_notin; auto. unfold mem_of, lis_of. rewrite gs_of_ogs. destruct (ogs (p_map st k)); auto.
  Qed.
  Lemma x_ogs2 k : ogs (x_map2 k) = mkG (nrem a (mem_of st k)) (nrem a (lis_of st k)).
  Proof.
    unfold x_map2. destruct (kmem k (r_mem r)) eqn:E.
    - rewrite ogs_lclean, x_ogs1. reflexivity.
    - apply kmem_nIn in E. rewrite <- x_rel in E. rewrite (i_rmem _ I) in E.
      rewrite x_ogs1. rewrite (nrem_notin a (mem_of st k)); auto.
  Qed.
  Lemma x_mem k : mem_of x_st' k = nrem a (mem_of st k).
  Proof. unfold mem_of at 1. rewrite gs_of_ogs. simpl. rewrite x_ogs2. auto. Qed.
  Lemma x_lis k : lis_of x_st' k = nrem a (lis_of st k).
  Proof. unfold lis_of at 1. rewrite gs_of_ogs. simpl. rewrite x_ogs2. auto. Qed.
  Lemma x_world s : world_of x_st' s = nrem a (world_of st s).
  Proof.
    rewrite world_of_olist. simpl. unfold x_world1. destruct (nmem s (r_wmon r)) eqn:E.
    - rewrite olist_wclean. auto.
    - apply nmem_nIn in E. rewrite <- x_rel in E. rewrite (i_rwmon _ I) in E.
      rewrite nrem_notin; auto.
  Qed.
  Lemma x_relof b : rel_of x_st' b = if N.eqb a b then empty_rel else rel_of st b.
  Proof. rewrite rel_of_orel. simpl. unfold nupd. destruct (N.eqb a b); auto. Qed.
  Lemma x_index s : index_of x_st' s =
    filter (fun g => negb (nmem a (mem_of st (s, g)) && null (nrem a (mem_of st (s, g))))) (index_of st s).
  Proof.
    rewrite index_of_olist. simpl. unfold x_idx2, index_of. destruct (p_index st s) as [l|]; auto.
    rewrite olist_norm. apply filter_ext_in. intros g Hg. f_equal.
    rewrite emptied_ogs, x_ogs1. simpl.
    destruct (nmem a (mem_of st (s, g))) eqn:E; simpl; [|apply andb_false_r].
    apply nmem_In in E. apply (i_rmem _ I) in E. rewrite x_rel in E. apply kmem_In in E. rewrite E. auto.
  Qed.

  Lemma nrem_nil_iff l : NoDup l -> nrem a l = [] <-> (l = [] \/ l = [a]).
  Proof.
    intros ND. split.
    - intros E. destruct l as [|x l]; auto. right.
      assert (X : forall y, In y (x :: l) -> y = a).
      { intros y Hy. destruct (N.eq_dec y a); auto.
        assert (In y (nrem a (x :: l))) by (apply In_nrem; auto). rewrite E in H. destruct H. }
      assert (x = a) by (apply X; left; auto). subst.
      destruct l as [|y l]; auto. assert (y = a) by (apply X; right; left; auto). subst.
      inversion ND; subst. exfalso. apply H1. left; auto.
    - intros [->| ->]; auto. unfold nrem; simpl. rewrite N.eqb_refl. auto.
  Qed.

  Lemma inv_exit_some : inv x_st'.
  Proof.
    constructor.
    - intros s g. rewrite x_mem, x_index, filter_In, (i_index _ I).
      rewrite negb_true_iff, andb_false_iff, nmem_nIn, null_false.
      split.
      + intros [Hne [Hn|Hn]]; auto. rewrite nrem_notin; auto.
      + intros H. split; [intros E; rewrite E in H; apply H; reflexivity|]. right; auto.
    - intros b k. rewrite x_mem, x_relof, In_nrem. ncase a b; simpl; [tauto|].
      rewrite (i_rmem _ I). intuition.
    - intros b k. rewrite x_lis, x_relof, In_nrem. ncase a b; simpl; [tauto|].
      rewrite (i_rgmon _ I). intuition.
    - intros b s. rewrite x_world, x_relof, In_nrem. ncase a b; simpl; [tauto|].
      rewrite (i_rwmon _ I). intuition.
    - simpl. intros b. unfold nupd. ncase a b; auto. apply (i_dead _ I).
    - intros k. rewrite x_mem. apply NoDup_nrem, (i_nd_mem _ I).
    - intros k. rewrite x_lis. apply NoDup_nrem, (i_nd_lis _ I).
    - intros s. rewrite x_world. apply NoDup_nrem, (i_nd_world _ I).
    - intros s. rewrite x_index. apply NoDup_filter, (i_nd_index _ I).
    - intros b. rewrite x_relof. ncase a b; simpl; [constructor|apply (i_nd_rmem _ I)].
    - simpl. intros k H. apply (i_mkeys _ I). intros E. apply H.
      unfold x_map2, x_map1. rewrite E. simpl. destruct (kmem k (r_gmon r)), (kmem k (r_mem r)); auto.
    - simpl. intros k. unfold x_map2.
      assert (X : x_map1 k <> Some (mkG [] [])).
      { unfold x_map1. destruct (kmem k (r_gmon r)); [apply gclean_ne|]; apply (i_noempty _ I). }
      destruct (kmem k (r_mem r)); auto. apply lclean_ne; auto.
    - simpl. intros s. unfold x_world1. destruct (nmem s (r_wmon r)); [apply wclean_ne|apply (i_wnoempty _ I)].
    - simpl. intros s. unfold x_idx2. destruct (p_index st s); [apply norm_list_ne|congruence].
    - intros b. rewrite x_relof. ncase a b; simpl; [constructor|apply (i_nd_rgmon _ I)].
    - intros b. rewrite x_relof. ncase a b; simpl; [constructor|apply (i_nd_rwmon _ I)].
  Qed.
End Exit.

Lemma exit_some st a r : p_dead st a = false -> p_rels st a = Some r ->
  fst (exit_ st a) = x_st' st a r.
Proof. intros D R. unfold exit_. rewrite D, R. reflexivity. Qed.

Lemma inv_exit st a : inv st -> inv (fst (exit_ st a)).
Proof.
  intros I. destruct (p_dead st a) eqn:D; [unfold exit_; rewrite D; exact I|].
  destruct (p_rels st a) as [r|] eqn:R.
  - rewrite (exit_some _ _ r); auto. apply inv_exit_some; auto.
  - unfold exit_. rewrite D, R. simpl.
    constructor; try apply I. simpl. intros b. unfold nupd. ncase a b; auto. apply (i_dead _ I).
Qed.

Theorem inv_step st o : inv st -> inv (fst (step st o)).
Proof.
  intros I. destruct o; simpl.
  - apply inv_join; auto. - apply inv_leave; auto. - apply inv_monitor; auto.
  - apply inv_monitor_scope; auto. - apply inv_demonitor; auto. - apply inv_demonitor_scope; auto.
  - apply inv_exit; auto.
Qed.

Lemma run_app ops o : run (ops ++ [o]) = fst (step (run ops) o).
Proof. unfold run. rewrite fold_left_app. reflexivity. Qed.

Theorem inv_run ops : inv (run ops).
Proof.
  induction ops as [|o ops IH] using rev_ind; [apply inv0|]. rewrite run_app. apply inv_step; auto.
Qed.

(* ---------- refinement to the set specification ---------- *)
Definition spec_eq (x y : spec) : Prop :=
  (forall k a, sm x k a = sm y k a) /\ (forall k a, gm x k a = gm y k a) /\
  (forall s a, wm x s a = wm y s a) /\ (forall a, sdead x a = sdead y a).

Lemma spec_eq_refl x : spec_eq x x.
Proof. repeat split; auto. Qed.

Lemma spec_step_eq x y o : spec_eq x y -> spec_eq (spec_step x o) (spec_step y o).
Proof.
  intros [A [B [C D]]]. destruct o; simpl; repeat split; simpl; intros;
    repeat rewrite A; repeat rewrite B; repeat rewrite C; repeat rewrite D; auto.
Qed.
Lemma spec_eq_trans x y z : spec_eq x y -> spec_eq y z -> spec_eq x z.
Proof.
  intros [A [B [C D]]] [A' [B' [C' D']]]. repeat split; intros; congruence.
Qed.

Lemma beq_iff (b1 b2 : bool) : (b1 = true <-> b2 = true) -> b1 = b2.
Proof. destruct b1, b2; intuition congruence. Qed.

(* membership / listener characterisation of each operation *)
Lemma join_mem st s g acts b k :
  In b (mem_of (fst (join st s g acts)) k) <->
  In b (mem_of st k) \/ (k = (s, g) /\ In b acts /\ p_dead st b = false).
Proof.
  unfold join. set (kept := filter (fun a => negb (p_dead st a)) acts).
  assert (HK : forall x, In x kept <-> In x acts /\ p_dead st x = false).
  { intros x. unfold kept. rewrite filter_In, negb_true_iff. tauto. }
  destruct (null kept) eqn:EK.
  - apply null_nil in EK. simpl. split; auto. intros [H|[_ H]]; auto.
    apply HK in H. rewrite EK in H. destruct H.
  - simpl. unfold mem_of at 1. unfold gs_of. simpl. unfold kupd. kcase (s, g) k; simpl.
    + rewrite In_fold_nadd, HK. intuition.
    + intuition congruence.
Qed.
Lemma join_lis st s g acts k : lis_of (fst (join st s g acts)) k = lis_of st k.
Proof.
  unfold join. destruct (null _); auto. simpl. unfold lis_of, gs_of. simpl. unfold kupd.
  kcase (s, g) k; auto.
Qed.
Lemma join_world st s g acts s' : world_of (fst (join st s g acts)) s' = world_of st s'.
Proof. unfold join. destruct (null _); auto. Qed.
Lemma join_dead st s g acts : p_dead (fst (join st s g acts)) = p_dead st.
Proof. unfold join. destruct (null _); auto. Qed.

Lemma leave_mem st s g acts b k :
  In b (mem_of (fst (leave st s g acts)) k) <->
  In b (mem_of st k) /\ ~ (k = (s, g) /\ In b acts).
Proof.
  unfold leave. destruct (p_map st (s, g)) as [gs|] eqn:EG.
  - simpl. unfold mem_of at 1. rewrite gs_of_ogs. simpl. unfold kupd. kcase (s, g) k.
    + rewrite ogs_norm. simpl. rewrite In_filter_notin. unfold mem_of, gs_of. rewrite EG. intuition.
    + unfold mem_of. rewrite gs_of_ogs. intuition congruence.
  - simpl. split; [|tauto]. intros H. split; auto. intros [-> _].
    unfold mem_of, gs_of in H. rewrite EG in H. destruct H.
Qed.
Lemma leave_lis st s g acts k : lis_of (fst (leave st s g acts)) k = lis_of st k.
Proof.
  unfold leave. destruct (p_map st (s, g)) as [gs|] eqn:EG; auto.
  simpl. unfold lis_of at 1. rewrite gs_of_ogs. simpl. unfold kupd. kcase (s, g) k; auto.
  rewrite ogs_norm. unfold lis_of, gs_of. rewrite EG. auto.
Qed.
Lemma leave_world st s g acts s' : world_of (fst (leave st s g acts)) s' = world_of st s'.
Proof. unfold leave. destruct (p_map st (s, g)); auto. Qed.
Lemma leave_dead st s g acts : p_dead (fst (leave st s g acts)) = p_dead st.
Proof. unfold leave. destruct (p_map st (s, g)); auto. Qed.

Lemma monitor_gs st g a k :
  gs_of (monitor st g a) k =
  if keqb (DEFAULT, g) k && negb (p_dead st a)
  then mkG (mem_of st k) (nadd a (lis_of st k)) else gs_of st k.
Proof.
  unfold monitor. destruct (p_dead st a); simpl.
  - rewrite andb_false_r. rewrite !gs_of_ogs. simpl. rewrite ogs_remove_empty. unfold kupd.
    kcase (DEFAULT, g) k; auto.
  - rewrite andb_true_r. unfold gs_of at 1. simpl. unfold kupd. kcase (DEFAULT, g) k; auto.
Qed.
Lemma monitor_world st g a s : world_of (monitor st g a) s = world_of st s.
Proof. unfold monitor. destruct (p_dead st a); auto. Qed.
Lemma monitor_dead st g a : p_dead (monitor st g a) = p_dead st.
Proof. unfold monitor. destruct (p_dead st a); auto. Qed.

Lemma monitor_scope_gs st s a k : gs_of (monitor_scope st s a) k = gs_of st k.
Proof. unfold monitor_scope. destruct (p_dead st a); auto. Qed.
Lemma monitor_scope_world st s a s' :
  world_of (monitor_scope st s a) s' =
  if N.eqb s s' && negb (p_dead st a) then nadd a (world_of st s') else world_of st s'.
Proof.
  unfold monitor_scope. destruct (p_dead st a); simpl.
  - rewrite andb_false_r. rewrite !world_of_olist. simpl. rewrite olist_world_remove_empty.
    unfold nupd. ncase s s'; auto.
  - rewrite andb_true_r. unfold world_of at 1. simpl. unfold nupd. ncase s s'; auto.
Qed.
Lemma monitor_scope_dead st s a : p_dead (monitor_scope st s a) = p_dead st.
Proof. unfold monitor_scope. destruct (p_dead st a); auto. Qed.

Lemma demonitor_gs st g a k :
  gs_of (demonitor st g a) k =
  if keqb (DEFAULT, g) k then mkG (mem_of st k) (nrem a (lis_of st k)) else gs_of st k.
Proof.
  unfold demonitor. destruct (p_map st (DEFAULT, g)) as [gs|] eqn:EG.
  - rewrite gs_of_ogs. simpl. unfold kupd. kcase (DEFAULT, g) k; auto.
    rewrite ogs_norm. unfold mem_of, lis_of, gs_of. rewrite EG. auto.
  - kcase (DEFAULT, g) k; auto. unfold mem_of, lis_of, gs_of. simpl. rewrite EG. auto.
Qed.
Lemma demonitor_world st g a s : world_of (demonitor st g a) s = world_of st s.
Proof. unfold demonitor. destruct (p_map st (DEFAULT, g)); auto. Qed.
Lemma demonitor_dead st g a : p_dead (demonitor st g a) = p_dead st.
Proof. unfold demonitor. destruct (p_map st (DEFAULT, g)); auto. Qed.

Lemma demonitor_scope_gs st s a k : gs_of (demonitor_scope st s a) k = gs_of st k.
Proof. unfold demonitor_scope. destruct (p_world st s); auto. Qed.
Lemma demonitor_scope_world st s a s' :
  world_of (demonitor_scope st s a) s' = if N.eqb s s' then nrem a (world_of st s') else world_of st s'.
Proof.
  unfold demonitor_scope. destruct (p_world st s) as [ls|] eqn:EG.
  - rewrite world_of_olist. simpl. unfold nupd. ncase s s'; auto.
    rewrite olist_norm. unfold world_of. rewrite EG. auto.
  - ncase s s'; auto. unfold world_of. simpl. rewrite EG. auto.
Qed.
Lemma demonitor_scope_dead st s a : p_dead (demonitor_scope st s a) = p_dead st.
Proof. unfold demonitor_scope. destruct (p_world st s); auto. Qed.

Lemma exit_acc st a : inv st ->
  let st' := fst (exit_ st a) in
  (forall k, mem_of st' k = nrem a (mem_of st k)) /\
  (forall k, lis_of st' k = nrem a (lis_of st k)) /\
  (forall s, world_of st' s = nrem a (world_of st s)) /\
  (forall b, p_dead st' b = p_dead st b || N.eqb a b).
Proof.
  intros I. destruct (p_dead st a) eqn:D.
  - destruct (dead_nowhere _ _ I D) as [A [B [C _]]].
    unfold exit_. rewrite D. simpl. repeat split; intros; try (rewrite nrem_notin; auto).
    ncase a b; [rewrite D; auto|rewrite orb_false_r; auto].
  - destruct (p_rels st a) as [r|] eqn:R.
    + simpl. rewrite (exit_some _ _ r); auto. repeat split; intros.
      * apply x_mem; auto. * apply x_lis; auto. * apply x_world; auto.
      * simpl. unfold nupd. ncase a b; [rewrite orb_true_r|rewrite orb_false_r]; auto.
    + assert (E : rel_of st a = empty_rel) by (unfold rel_of; rewrite R; auto).
      unfold exit_. rewrite D, R. simpl. repeat split; intros.
      * rewrite nrem_notin; auto. rewrite <- (i_rmem _ I), E. simpl. tauto.
      * rewrite nrem_notin; auto. rewrite <- (i_rgmon _ I), E. simpl. tauto.
      * rewrite nrem_notin; auto. rewrite <- (i_rwmon _ I), E. simpl. tauto.
      * unfold nupd. ncase a b; [rewrite orb_true_r|rewrite orb_false_r]; auto.
Qed.

Lemma nmem_nadd b a l : nmem b (nadd a l) = nmem b l || N.eqb a b.
Proof.
  apply beq_iff. rewrite orb_true_iff, !nmem_In, In_nadd, N.eqb_eq. intuition.
Qed.
Lemma nmem_nrem b a l : nmem b (nrem a l) = nmem b l && negb (N.eqb a b).
Proof.
  apply beq_iff. rewrite andb_true_iff, !nmem_In, In_nrem, negb_true_iff, N.eqb_neq. intuition.
Qed.

Theorem refine_step st o : inv st -> spec_eq (abs (fst (step st o))) (spec_step (abs st) o).
Proof.
  intros I. destruct o as [s g acts|s g acts|g a0|s a0|g a0|s a0|a0]; simpl.
  - repeat split; simpl; intros.
    + apply beq_iff. rewrite orb_true_iff, !andb_true_iff, negb_true_iff, keqb_true, !nmem_In, join_mem.
      intuition.
    + rewrite join_lis. auto.
    + rewrite join_world. auto.
    + rewrite join_dead. auto.
  - repeat split; simpl; intros.
    + apply beq_iff. rewrite andb_true_iff, negb_true_iff, andb_false_iff, keqb_false, nmem_nIn, !nmem_In, leave_mem.
      assert (X : k = (s, g) <-> (s, g) = k) by (split; congruence).
      destruct (keqb_spec (s, g) k); destruct (in_dec N.eq_dec a acts); tauto.
    + rewrite leave_lis. auto.
    + rewrite leave_world. auto.
    + rewrite leave_dead. auto.
  - repeat split; simpl; intros.
    + unfold mem_of. rewrite monitor_gs. destruct (_ && _); auto.
    + unfold lis_of. rewrite monitor_gs. kcase (DEFAULT, g) k; simpl.
      * destruct (p_dead st a0) eqn:D; simpl.
        -- ncase a0 a; [rewrite D|]; simpl; rewrite orb_false_r; auto.
        -- rewrite nmem_nadd. fold (lis_of st (DEFAULT, g)). ncase a0 a; simpl; auto. rewrite D. auto.
      * rewrite orb_false_r. auto.
    + rewrite monitor_world. auto.
    + rewrite monitor_dead. auto.
  - repeat split; simpl; intros.
    + unfold mem_of. rewrite monitor_scope_gs. auto.
    + unfold lis_of. rewrite monitor_scope_gs. auto.
    + rewrite monitor_scope_world. ncase s s0; simpl.
      * destruct (p_dead st a0) eqn:D; simpl.
        -- ncase a0 a; [rewrite D|]; simpl; rewrite orb_false_r; auto.
        -- rewrite nmem_nadd. ncase a0 a; simpl; auto. rewrite D. auto.
      * rewrite orb_false_r. auto.
    + rewrite monitor_scope_dead. auto.
  - repeat split; simpl; intros.
    + unfold mem_of. rewrite demonitor_gs. destruct (keqb _ _); auto.
    + unfold lis_of. rewrite demonitor_gs. kcase (DEFAULT, g) k; simpl.
      * rewrite nmem_nrem. auto.
      * rewrite andb_true_r. auto.
    + rewrite demonitor_world. auto.
    + rewrite demonitor_dead. auto.
  - repeat split; simpl; intros.
    + unfold mem_of. rewrite demonitor_scope_gs. auto.
    + unfold lis_of. rewrite demonitor_scope_gs. auto.
    + rewrite demonitor_scope_world. ncase s s0; simpl.
      * rewrite nmem_nrem. auto.
      * rewrite andb_true_r. auto.
    + rewrite demonitor_scope_dead. auto.
  - destruct (exit_acc st a0 I) as [A [B [C D]]]. repeat split; simpl; intros.
    + rewrite A, nmem_nrem. auto.
    + rewrite B, nmem_nrem. auto.
    + rewrite C, nmem_nrem. auto.
    + rewrite D. auto.
Qed.

Lemma spec_run_app ops o : spec_run (ops ++ [o]) = spec_step (spec_run ops) o.
Proof. unfold spec_run. rewrite fold_left_app. reflexivity. Qed.

Theorem refine_run ops : spec_eq (abs (run ops)) (spec_run ops).
Proof.
  induction ops as [|o ops IH] using rev_ind.
  - repeat split; auto.
  - rewrite run_app, spec_run_app.
    eapply spec_eq_trans; [apply refine_step, inv_run|apply spec_step_eq, IH].
Qed.

(* ---------- queries: a group is listed iff it has members ---------- *)
Lemma In_kdedup x l : In x (kdedup l) <-> In x l.
Proof.
  induction l as [|y l IH]; simpl; [tauto|]. destruct (kmem y l) eqn:E.
  - apply kmem_In in E. rewrite IH. intuition (subst; auto).
  - simpl. rewrite IH. tauto.
Qed.
Lemma NoDup_kdedup l : NoDup (kdedup l).
Proof.
  induction l as [|y l IH]; simpl; [constructor|]. destruct (kmem y l) eqn:E; auto.
  constructor; auto. rewrite In_kdedup. apply kmem_nIn; auto.
Qed.
Lemma In_ndedup x l : In x (ndedup l) <-> In x l.
Proof.
  induction l as [|y l IH]; simpl; [tauto|]. destruct (nmem y l) eqn:E.
  - apply nmem_In in E. rewrite IH. intuition (subst; auto).
  - simpl. rewrite IH. tauto.
Qed.
Lemma NoDup_ndedup l : NoDup (ndedup l).
Proof.
  induction l as [|y l IH]; simpl; [constructor|]. destruct (nmem y l) eqn:E; auto.
  constructor; auto. rewrite In_ndedup. apply nmem_nIn; auto.
Qed.

Lemma wsg_spec st k : inv st -> In k (which_scopes_and_groups st) <-> mem_of st k <> [].
Proof.
  intros I. unfold which_scopes_and_groups. rewrite filter_In, In_kdedup, negb_true_iff, null_false.
  split; [tauto|]. intros H; split; auto. apply (i_mkeys _ I). intros E. apply H.
  unfold mem_of, gs_of. rewrite E. auto.
Qed.
Lemma wsg_nodup st : NoDup (which_scopes_and_groups st).
Proof. apply NoDup_filter, NoDup_kdedup. Qed.
Lemma which_groups_spec st g : inv st ->
  In g (which_groups st) <-> exists s, get_members st s g <> [].
Proof.
  intros I. unfold which_groups, get_members. rewrite In_ndedup, in_map_iff. split.
  - intros [[s g'] [E H]]. simpl in E. subst. exists s. apply wsg_spec; auto.
  - intros [s H]. exists (s, g). split; auto. apply wsg_spec; auto.
Qed.
Lemma which_scopes_spec st s : inv st ->
  In s (which_scopes st) <-> exists g, get_members st s g <> [].
Proof.
  intros I. unfold which_scopes, get_members. rewrite In_ndedup, in_map_iff. split.
  - intros [[s' g] [E H]]. simpl in E. subst. exists g. apply wsg_spec; auto.
  - intros [g H]. exists (s, g). split; auto. apply wsg_spec; auto.
Qed.

Theorem index_agree st : inv st ->
  (forall s g, In g (which_scoped_groups st s) <-> get_members st s g <> []) /\
  (forall s g, In (s, g) (which_scopes_and_groups st) <-> get_members st s g <> []) /\
  (forall g, In g (which_groups st) <-> exists s, get_members st s g <> []) /\
  (forall s, In s (which_scopes st) <-> exists g, get_members st s g <> []) /\
  (forall s g, get_local_members st s g = filter is_local (get_members st s g)) /\
  (forall s, NoDup (which_scoped_groups st s)) /\ NoDup (which_scopes_and_groups st) /\
  NoDup (which_groups st) /\ NoDup (which_scopes st) /\ (forall s g, NoDup (get_members st s g)).
Proof.
  intros I. repeat split; try (intros; apply NoDup_ndedup); try apply wsg_nodup;
    try (intros; apply (i_nd_index _ I)); try (intros; apply (i_nd_mem _ I)).
  - apply (i_index _ I). - apply (i_index _ I).
  - apply wsg_spec; auto. - apply wsg_spec; auto.
  - apply which_groups_spec; auto. - apply which_groups_spec; auto.
  - apply which_scopes_spec; auto. - apply which_scopes_spec; auto.
Qed.

(* every query of a run answers from the specification's sets *)
Theorem members_spec ops s g a :
  In a (get_members (run ops) s g) <-> sm (spec_run ops) (s, g) a = true.
Proof.
  destruct (refine_run ops) as [A _]. rewrite <- A. simpl. rewrite nmem_In. tauto.
Qed.

(* ---------- no zombie ---------- *)
Lemma dead_mono st o a : p_dead st a = true -> p_dead (fst (step st o)) a = true.
Proof.
  intros H. destruct o; simpl.
  - rewrite join_dead; auto. - rewrite leave_dead; auto. - rewrite monitor_dead; auto.
  - rewrite monitor_scope_dead; auto. - rewrite demonitor_dead; auto. - rewrite demonitor_scope_dead; auto.
  - unfold exit_. destruct (p_dead st a0) eqn:D; auto. destruct (p_rels st a0); simpl; unfold nupd;
      ncase a0 a; auto.
Qed.
Lemma exit_dead st a : p_dead (fst (exit_ st a)) a = true.
Proof.
  unfold exit_. destruct (p_dead st a) eqn:D; auto. destruct (p_rels st a); simpl; apply nupd_eq.
Qed.
Lemma run_app2 ops1 ops2 : run (ops1 ++ ops2) = fold_left (fun st o => fst (step st o)) ops2 (run ops1).
Proof. unfold run. apply fold_left_app. Qed.
Lemma dead_mono_run ops st a :
  p_dead st a = true -> p_dead (fold_left (fun st o => fst (step st o)) ops st) a = true.
Proof. revert st; induction ops as [|o ops IH]; simpl; intros st H; auto. apply IH, dead_mono, H. Qed.

Theorem no_zombie ops1 ops2 a :
  let st := run (ops1 ++ OExit a :: ops2) in
  (forall k, ~ In a (mem_of st k)) /\ (forall k, ~ In a (lis_of st k)) /\
  (forall s, ~ In a (world_of st s)) /\ p_rels st a = None.
Proof.
  intros st. apply dead_nowhere; [apply inv_run|].
  unfold st. rewrite run_app2. simpl. apply dead_mono_run, exit_dead.
Qed.

(* an actor whose Stopping status is published is never added by any operation *)
Theorem never_added st o a k : inv st -> p_dead st a = true ->
  ~ In a (mem_of (fst (step st o)) k) /\ ~ In a (lis_of (fst (step st o)) k).
Proof.
  intros I D.
  assert (D' := dead_mono st o a D). assert (I' := inv_step st o I).
  destruct (dead_nowhere _ _ I' D') as [A [B _]]. auto.
Qed.

(* ---------- notifications ---------- *)
(* the recipients the code reads for a change of (s,g): the group's listeners, the scope's
   listeners, the all-scopes listeners, in this order *)
Definition recipients (st : pg) (s g : N) : list N :=
  lis_of st (s, g) ++ world_of st s ++ world_of st WORLD.

Lemma notify_world_eq st isj s g acts :
  notify_world (p_world st) isj s g acts
  = map (fun l => mkEv l isj s g acts) (world_of st s ++ world_of st WORLD).
Proof. unfold notify_world, notify_list, world_of. simpl. rewrite app_nil_r, map_app. auto. Qed.

Lemma notify_all_eq st lis isj s g acts :
  notify_list lis isj s g acts ++ notify_world (p_world st) isj s g acts
  = map (fun l => mkEv l isj s g acts) (lis ++ world_of st s ++ world_of st WORLD).
Proof. rewrite notify_world_eq. unfold notify_list. rewrite <- map_app. auto. Qed.

Theorem notify_join st s g acts :
  snd (join st s g acts) =
  let kept := filter (fun a => negb (p_dead st a)) acts in
  if null kept then [] else map (fun l => mkEv l true s g kept) (recipients st s g).
Proof.
  unfold join. simpl. destruct (null _); auto. simpl. rewrite notify_all_eq. reflexivity.
Qed.

Definition has_entry (st : pg) (k : key) : bool := match p_map st k with Some _ => true | None => false end.

Theorem notify_leave st s g acts :
  snd (leave st s g acts) =
  if has_entry st (s, g) then map (fun l => mkEv l false s g acts) (recipients st s g) else [].
Proof.
  unfold leave, has_entry. destruct (p_map st (s, g)) as [gs|] eqn:E; auto. simpl.
  rewrite notify_all_eq. unfold recipients, lis_of, gs_of. rewrite E. reflexivity.
Qed.

Lemma entry_iff st k : inv st -> has_entry st k = true <-> (mem_of st k <> [] \/ lis_of st k <> []).
Proof.
  intros I. unfold has_entry, mem_of, lis_of, gs_of. pose proof (i_noempty _ I k) as X.
  destruct (p_map st k) as [[m l]|]; simpl.
  - split; auto. intros _. destruct m; [|left; congruence]. destruct l; [congruence|right; congruence].
  - split; [congruence|]. intros [H|H]; congruence.
Qed.

Lemma flat_map_ext_in {A B} (f g : A -> list B) l :
  (forall x, In x l -> f x = g x) -> flat_map f l = flat_map g l.
Proof.
  induction l as [|x l IH]; simpl; intros H; auto. rewrite H, IH; auto.
Qed.

Theorem notify_exit st a : inv st -> p_dead st a = false ->
  let st' := fst (exit_ st a) in
  snd (exit_ st a) =
  flat_map (fun k => map (fun l => mkEv l false (fst k) (snd k) [a]) (recipients st' (fst k) (snd k)))
           (r_mem (rel_of st a)).
Proof.
  intros I D. destruct (p_rels st a) as [r|] eqn:R.
  - simpl. rewrite (exit_some _ _ r); auto. unfold exit_. rewrite D, R. simpl.
    rewrite (x_rel st a r R). apply flat_map_ext_in. intros k Hk.
    fold (x_world1 st a r).
    change (if kmem k (r_gmon r) then gclean a (p_map st k) else p_map st k) with (x_map1 st a r k).
    pose proof (x_ogs1 st a r I R k) as O.
    assert (Hm : In a (mem_of st k)) by (apply (i_rmem _ I); rewrite (x_rel st a r R); auto).
    destruct (x_map1 st a r k) as [gs|] eqn:EM; simpl in O.
    + subst gs. simpl. apply nmem_In in Hm. rewrite Hm.
      change (x_world1 st a r) with (p_world (x_st' st a r)). rewrite notify_all_eq.
      destruct k as [s g]. unfold recipients. simpl. rewrite (x_lis st a r I R). reflexivity.
    + inversion O as [[O1 O2]]. rewrite <- O1 in Hm. destruct Hm.
  - unfold exit_. rewrite D, R. simpl. unfold rel_of. rewrite R. reflexivity.
Qed.

Lemma exit_dead_noev st a : p_dead st a = true -> snd (exit_ st a) = [].
Proof. intros D. unfold exit_. rewrite D. auto. Qed.

(* multiplicity: each listener occurs once per monitor relation it holds *)
Lemma count_nodup x l : NoDup l -> count_occ N.eq_dec l x = b2n (nmem x l).
Proof.
  induction l as [|y l IH]; simpl; intros ND; auto. inversion ND; subst.
  destruct (N.eq_dec y x).
  - subst. rewrite N.eqb_refl. simpl. rewrite IH; auto.
    assert (nmem x l = false) by (apply nmem_nIn; auto). rewrite H. auto.
  - rewrite IH; auto. assert (E : N.eqb x y = false) by (apply N.eqb_neq; congruence).
    unfold nmem at 2. simpl. rewrite E. auto.
Qed.

Theorem recipients_count st s g l : inv st ->
  count_occ N.eq_dec (recipients st s g) l = fanout (abs st) s g l.
Proof.
  intros I. unfold recipients, fanout. rewrite !count_occ_app. simpl.
  rewrite !count_nodup; try apply I. lia.
Qed.
