(* Soundness of the executable oracle check_C11 on runs of the atomic model: it accepts the
   views of every history whose operations stay inside the universe. *)
From Coq Require Import List NArith Bool Lia PeanoNat.
From RV Require Import Pg.Model Pg.Proofs.
Import ListNotations.
Local Open Scope N_scope.

(* ---------- set comparison ---------- *)
Lemma nsubset_spec a b : nsubset a b = true <-> (forall x, In x a -> In x b).
Proof.
  unfold nsubset. rewrite forallb_forall. split; intros H x Hx; [apply nmem_In|apply nmem_In]; auto.
Qed.
Lemma ksubset_spec a b : ksubset a b = true <-> (forall x, In x a -> In x b).
Proof.
  unfold ksubset. rewrite forallb_forall. split; intros H x Hx; [apply kmem_In|apply kmem_In]; auto.
Qed.
Lemma nset_eqb_intro a b : NoDup a -> NoDup b -> (forall x, In x a <-> In x b) -> nset_eqb a b = true.
Proof.
  intros Na Nb H. unfold nset_eqb. rewrite !andb_true_iff. repeat split.
  - apply nsubset_spec. intros x. apply H.
  - apply nsubset_spec. intros x. apply H.
  - apply Nat.eqb_eq. apply Nat.le_antisymm; apply NoDup_incl_length; auto; intros x; apply H.
Qed.
Lemma kset_eqb_intro a b : NoDup a -> NoDup b -> (forall x, In x a <-> In x b) -> kset_eqb a b = true.
Proof.
  intros Na Nb H. unfold kset_eqb. rewrite !andb_true_iff. repeat split.
  - apply ksubset_spec. intros x. apply H.
  - apply ksubset_spec. intros x. apply H.
  - apply Nat.eqb_eq. apply Nat.le_antisymm; apply NoDup_incl_length; auto; intros x; apply H.
Qed.

(* ---------- lookups in the printed views ---------- *)
Lemma klookup_map {V} (d : V) (f : key -> V) k keys :
  In k keys -> klookup d k (map (fun k => (k, f k)) keys) = f k.
Proof.
  unfold klookup. induction keys as [|x l IH]; simpl; [tauto|]. intros H.
  destruct (keqb_spec k x) as [->|Ne]; simpl; auto; try (apply IH; destruct H; congruence).
Qed.
Lemma nlookup_map {V} (d : V) (f : N -> V) k keys :
  In k keys -> nlookup d k (map (fun k => (k, f k)) keys) = f k.
Proof.
  unfold nlookup. induction keys as [|x l IH]; simpl; [tauto|]. intros H.
  destruct (N.eqb_spec k x) as [->|Ne]; simpl; auto; try (apply IH; destruct H; congruence).
Qed.
Lemma klookup_opt {V} (d : V) (F : key -> option V) k keys :
  klookup d k (opt_list F keys) = if kmem k keys then match F k with Some y => y | None => d end else d.
Proof.
  unfold klookup, opt_list. induction keys as [|x l IH]; simpl; auto.
  destruct (keqb_spec k x) as [->|Ne].
  - simpl. destruct (F x) eqn:E; simpl.
    + rewrite keqb_refl. auto.
    + rewrite IH. destruct (kmem x l); auto; try (rewrite E; auto).
  - simpl. destruct (F x); simpl; auto. apply keqb_false in Ne. rewrite Ne. auto.
Qed.
Lemma nlookup_opt {V} (d : V) (F : N -> option V) k keys :
  nlookup d k (opt_list F keys) = if nmem k keys then match F k with Some y => y | None => d end else d.
Proof.
  unfold nlookup, opt_list. induction keys as [|x l IH]; simpl; auto.
  destruct (N.eqb_spec k x) as [->|Ne].
  - simpl. destruct (F x) eqn:E; simpl.
    + rewrite N.eqb_refl. auto.
    + rewrite IH. destruct (nmem x l); auto; try (rewrite E; auto).
  - simpl. destruct (F x); simpl; auto. apply N.eqb_neq in Ne. rewrite Ne. auto.
Qed.
Lemma In_opt_list {A B} (F : A -> option B) l x y : In (x, y) (opt_list F l) <-> In x l /\ F x = Some y.
Proof.
  unfold opt_list. rewrite in_flat_map. split.
  - intros [z [Hz H]]. destruct (F z) eqn:E; simpl in H; [|tauto]. destruct H as [H|[]]. inversion H; subst. auto.
  - intros [H E]. exists x. split; auto. rewrite E. left; auto.
Qed.

(* ---------- universes ---------- *)
Definition wf_u (u : universe) : Prop :=
  NoDup (u_scopes u) /\ NoDup (u_groups u) /\ NoDup (u_actors u) /\ ~ In WORLD (u_scopes u).

Lemma In_u_keys u s g : In (s, g) (u_keys u) <-> In s (u_scopes u) /\ In g (u_groups u).
Proof.
  unfold u_keys. rewrite in_flat_map. split.
  - intros [s' [Hs H]]. apply in_map_iff in H. destruct H as [g' [E Hg]]. inversion E; subst. auto.
  - intros [Hs Hg]. exists s. split; auto. apply in_map_iff. exists g. auto.
Qed.
Lemma NoDup_app_intro {A} (a b : list A) :
  NoDup a -> NoDup b -> (forall x, In x a -> ~ In x b) -> NoDup (a ++ b).
Proof.
  induction a as [|x a IH]; simpl; intros Na Nb H; auto. inversion Na; subst. constructor.
  - rewrite in_app_iff. intros [X|X]; auto. apply (H x); auto.
  - apply IH; auto.
Qed.
Lemma NoDup_u_keys u : wf_u u -> NoDup (u_keys u).
Proof.
  intros [Ns [Ng _]]. unfold u_keys. induction (u_scopes u) as [|s l IH]; simpl; [constructor|].
  inversion Ns; subst. apply NoDup_app_intro; auto.
  - clear - Ng. induction (u_groups u) as [|g gl IHg]; simpl; [constructor|]. inversion Ng; subst.
    constructor; auto. rewrite in_map_iff. intros [g' [E Hg]]. inversion E; subst. auto.
  - intros [s' g'] K1 K2. apply in_map_iff in K1. destruct K1 as [g1 [E _]]. inversion E; subst.
    apply in_flat_map in K2. destruct K2 as [s2 [Hs2 K2]]. apply in_map_iff in K2.
    destruct K2 as [g2 [E2 _]]. inversion E2; subst. auto.
Qed.
Lemma NoDup_wscopes u : wf_u u -> NoDup (WORLD :: u_scopes u).
Proof. intros [Ns [_ [_ W]]]. constructor; auto. Qed.

(* everything the state mentions lies in the universe *)
Record ucl (u : universe) (st : pg) : Prop := mkUcl {
  uc_mem : forall k a, In a (mem_of st k) -> In a (u_actors u) /\ In k (u_keys u);
  uc_lis : forall k a, In a (lis_of st k) -> In a (u_actors u) /\ In k (u_keys u);
  uc_world : forall s a, In a (world_of st s) -> In a (u_actors u) /\ In s (WORLD :: u_scopes u) }.

Lemma ucl0 u : ucl u pg0.
Proof. constructor; unfold mem_of, lis_of, gs_of, world_of; simpl; tauto. Qed.

Lemma nsubset_In a b x : nsubset a b = true -> In x a -> In x b.
Proof. intros H. apply nsubset_spec; auto. Qed.

Lemma ucl_step u st o : inv st -> ucl u st -> op_in u o = true -> ucl u (fst (step st o)).
Proof.
  intros I U W. destruct o as [s g acts|s g acts|g a0|s a0|g a0|s a0|a0]; simpl in *.
  - apply andb_true_iff in W. destruct W as [W Wa]. apply andb_true_iff in W. destruct W as [Ws Wg].
    apply nmem_In in Ws, Wg.
    constructor; intros.
    + apply join_mem in H. destruct H as [H|[-> [H _]]]; [apply (uc_mem _ _ U); auto|].
      split; [eapply nsubset_In; eauto|apply In_u_keys; auto].
    + rewrite join_lis in H. apply (uc_lis _ _ U); auto.
    + rewrite join_world in H. apply (uc_world _ _ U); auto.
  - constructor; intros.
    + apply leave_mem in H. destruct H as [H _]. apply (uc_mem _ _ U); auto.
    + rewrite leave_lis in H. apply (uc_lis _ _ U); auto.
    + rewrite leave_world in H. apply (uc_world _ _ U); auto.
  - apply andb_true_iff in W. destruct W as [W Wa]. apply andb_true_iff in W. destruct W as [Ws Wg].
    apply nmem_In in Ws, Wg, Wa.
    constructor; intros.
    + unfold mem_of in H. rewrite monitor_gs in H. destruct (_ && _); [simpl in H|]; apply (uc_mem _ _ U); auto.
    + unfold lis_of in H. rewrite monitor_gs in H.
      destruct (keqb_spec (DEFAULT, g) k) as [<-|Ne]; simpl in H; [|apply (uc_lis _ _ U); auto].
      destruct (negb (p_dead st a0)); simpl in H; [|apply (uc_lis _ _ U); auto].
      apply In_nadd in H. destruct H as [->|H]; [split; auto; apply In_u_keys; auto|apply (uc_lis _ _ U); auto].
    + rewrite monitor_world in H. apply (uc_world _ _ U); auto.
  - apply andb_true_iff in W. destruct W as [Ws Wa]. change (nmem s (WORLD :: u_scopes u) = true) in Ws.
    apply nmem_In in Ws, Wa.
    constructor; intros.
    + unfold mem_of in H. rewrite monitor_scope_gs in H. apply (uc_mem _ _ U); auto.
    + unfold lis_of in H. rewrite monitor_scope_gs in H. apply (uc_lis _ _ U); auto.
    + rewrite monitor_scope_world in H. destruct (N.eqb_spec s s0) as [<-|Ne]; simpl in H; [|apply (uc_world _ _ U); auto].
      destruct (negb (p_dead st a0)); simpl in H; [|apply (uc_world _ _ U); auto].
      apply In_nadd in H. destruct H as [->|H]; [split; auto|apply (uc_world _ _ U); auto].
  - constructor; intros.
    + unfold mem_of in H. rewrite demonitor_gs in H. destruct (keqb _ _); [simpl in H|]; apply (uc_mem _ _ U); auto.
    + unfold lis_of in H. rewrite demonitor_gs in H.
      destruct (keqb_spec (DEFAULT, g) k) as [<-|Ne]; simpl in H; [|apply (uc_lis _ _ U); auto].
      apply In_nrem in H. destruct H as [H _]. apply (uc_lis _ _ U); auto.
    + rewrite demonitor_world in H. apply (uc_world _ _ U); auto.
  - constructor; intros.
    + unfold mem_of in H. rewrite demonitor_scope_gs in H. apply (uc_mem _ _ U); auto.
    + unfold lis_of in H. rewrite demonitor_scope_gs in H. apply (uc_lis _ _ U); auto.
    + rewrite demonitor_scope_world in H. destruct (N.eqb s s0); [apply In_nrem in H; destruct H as [H _]|];
        apply (uc_world _ _ U); auto.
  - destruct (exit_acc st a0 I) as [A [B [C D]]]. constructor; intros.
    + rewrite A in H. apply In_nrem in H. destruct H as [H _]. apply (uc_mem _ _ U); auto.
    + rewrite B in H. apply In_nrem in H. destruct H as [H _]. apply (uc_lis _ _ U); auto.
    + rewrite C in H. apply In_nrem in H. destruct H as [H _]. apply (uc_world _ _ U); auto.
Qed.

(* ---------- queries ---------- *)
Section Sound.
  Variable u : universe.
  Variable st : pg.
  Variable sp : spec.
  Hypothesis WF : wf_u u.
  Hypothesis I : inv st.
  Hypothesis U : ucl u st.
  Hypothesis SE : spec_eq (abs st) sp.

  Lemma hs_sm k a : sm sp k a = nmem a (mem_of st k).
  Proof. destruct SE as [A _]. rewrite <- A. reflexivity. Qed.
  Lemma hs_gm k a : gm sp k a = nmem a (lis_of st k).
  Proof. destruct SE as [_ [A _]]. rewrite <- A. reflexivity. Qed.
  Lemma hs_wm s a : wm sp s a = nmem a (world_of st s).
  Proof. destruct SE as [_ [_ [A _]]]. rewrite <- A. reflexivity. Qed.
  Lemma hs_dead a : sdead sp a = p_dead st a.
  Proof. destruct SE as [_ [_ [_ A]]]. rewrite <- A. reflexivity. Qed.

  Lemma mem_filter k x : In x (mem_of st k) <-> In x (sp_members u sp k).
  Proof.
    unfold sp_members. rewrite filter_In, hs_sm, nmem_In. split; [|tauto].
    intros H. split; auto. apply (uc_mem _ _ U k x H).
  Qed.
  Lemma lis_filter k x : In x (lis_of st k) <-> In x (filter (gm sp k) (u_actors u)).
  Proof.
    rewrite filter_In, hs_gm, nmem_In. split; [|tauto]. intros H. split; auto. apply (uc_lis _ _ U k x H).
  Qed.
  Lemma world_filter s x : In x (world_of st s) <-> In x (filter (wm sp s) (u_actors u)).
  Proof.
    rewrite filter_In, hs_wm, nmem_In. split; [|tauto]. intros H. split; auto. apply (uc_world _ _ U s x H).
  Qed.
  Lemma nonempty_spec k : sp_nonempty u sp k = true <-> mem_of st k <> [].
  Proof.
    unfold sp_nonempty. rewrite existsb_exists. split.
    - intros [a [Ha H]]. rewrite hs_sm in H. apply nmem_In in H. intros E. rewrite E in H. destruct H.
    - intros H. destruct (mem_of st k) as [|a l] eqn:E; [congruence|]. exists a.
      assert (X : In a (mem_of st k)) by (rewrite E; left; auto). split.
      + apply (uc_mem _ _ U k a X).
      + rewrite hs_sm. apply nmem_In; auto.
  Qed.
  Lemma nonempty_key k : mem_of st k <> [] -> In k (u_keys u).
  Proof.
    intros H. destruct (mem_of st k) as [|a l] eqn:E; [congruence|].
    assert (X : In a (mem_of st k)) by (rewrite E; left; auto). apply (uc_mem _ _ U k a X).
  Qed.
  Lemma actors_nd : NoDup (u_actors u). Proof. destruct WF as [_ [_ [A _]]]; auto. Qed.
  Lemma groups_nd : NoDup (u_groups u). Proof. destruct WF as [_ [A _]]; auto. Qed.
  Lemma scopes_nd : NoDup (u_scopes u). Proof. destruct WF as [A _]; auto. Qed.

  Lemma check_queries_sound evs : check_queries u sp (view_of u st evs) = true.
  Proof.
    unfold check_queries. rewrite !andb_true_iff. repeat split.
    - apply forallb_forall. intros k Hk. simpl. rewrite (klookup_map _ (fun k => get_members st (fst k) (snd k))); auto.
      destruct k as [s g]. unfold get_members. simpl.
      apply nset_eqb_intro; [apply (i_nd_mem _ I)|apply NoDup_filter, actors_nd|]. intros x. apply mem_filter.
    - apply forallb_forall. intros k Hk. simpl. rewrite (klookup_map _ (fun k => get_local_members st (fst k) (snd k))); auto.
      destruct k as [s g]. unfold get_local_members. simpl.
      apply nset_eqb_intro; [apply NoDup_filter, (i_nd_mem _ I)|apply NoDup_filter, NoDup_filter, actors_nd|].
      intros x. rewrite !filter_In, mem_filter. tauto.
    - apply forallb_forall. intros s Hs. simpl. rewrite (nlookup_map _ (fun s => which_scoped_groups st s)); auto.
      unfold which_scoped_groups.
      apply nset_eqb_intro; [apply (i_nd_index _ I)|apply NoDup_filter, groups_nd|].
      intros g. rewrite filter_In, nonempty_spec, (i_index _ I). split; [|tauto].
      intros H. split; auto. apply nonempty_key in H. apply In_u_keys in H. tauto.
    - simpl. apply nset_eqb_intro; [apply NoDup_ndedup|apply NoDup_filter, groups_nd|].
      intros g. rewrite filter_In, existsb_exists, which_groups_spec; auto. unfold get_members. split.
      + intros [s H]. pose proof (nonempty_key _ H) as K. apply In_u_keys in K. split; [tauto|].
        exists s. split; [tauto|]. apply nonempty_spec; auto.
      + intros [_ [s [_ H]]]. exists s. apply nonempty_spec; auto.
    - simpl. apply nset_eqb_intro; [apply NoDup_ndedup|apply NoDup_filter, scopes_nd|].
      intros s. rewrite filter_In, existsb_exists, which_scopes_spec; auto. unfold get_members. split.
      + intros [g H]. pose proof (nonempty_key _ H) as K. apply In_u_keys in K. split; [tauto|].
        exists g. split; [tauto|]. apply nonempty_spec; auto.
      + intros [_ [g [_ H]]]. exists g. apply nonempty_spec; auto.
    - simpl. apply kset_eqb_intro; [apply wsg_nodup|apply NoDup_filter, NoDup_u_keys; auto|].
      intros k. rewrite filter_In, nonempty_spec, wsg_spec; auto. split; [|tauto].
      intros H. split; auto. apply nonempty_key; auto.
  Qed.

  (* ---------- the snapshot of the four indexes ---------- *)
  Lemma lis_key k : lis_of st k <> [] -> In k (u_keys u).
  Proof.
    intros H. destruct (lis_of st k) as [|a l] eqn:E; [congruence|].
    assert (X : In a (lis_of st k)) by (rewrite E; left; auto). apply (uc_lis _ _ U k a X).
  Qed.
  Lemma snap_mems k : fst (klookup ([], []) k (sn_map (snapshot u st))) = mem_of st k.
  Proof.
    simpl. rewrite klookup_opt. unfold mem_of, gs_of. destruct (kmem k (u_keys u)) eqn:E.
    - destruct (p_map st k); auto.
    - simpl. apply kmem_nIn in E. destruct (p_map st k) as [e|] eqn:EM; auto.
      destruct (g_mem e) eqn:EG; auto. exfalso. apply E. apply nonempty_key.
      unfold mem_of, gs_of. rewrite EM, EG. discriminate.
  Qed.
  Lemma snap_liss k : snd (klookup ([], []) k (sn_map (snapshot u st))) = lis_of st k.
  Proof.
    simpl. rewrite klookup_opt. unfold lis_of, gs_of. destruct (kmem k (u_keys u)) eqn:E.
    - destruct (p_map st k); auto.
    - simpl. apply kmem_nIn in E. destruct (p_map st k) as [e|] eqn:EM; auto.
      destruct (g_lis e) eqn:EG; auto. exfalso. apply E. apply lis_key.
      unfold lis_of, gs_of. rewrite EM, EG. discriminate.
  Qed.
  Lemma snap_world s : nlookup [] s (sn_world (snapshot u st)) = world_of st s.
  Proof.
    unfold snapshot; cbn [sn_world]. rewrite nlookup_opt. unfold world_of. destruct (nmem s (WORLD :: u_scopes u)) eqn:E.
    - destruct (p_world st s); auto.
    - apply nmem_nIn in E. destruct (p_world st s) as [l|] eqn:EM; auto.
      destruct l as [|a l]; auto. exfalso. apply E.
      assert (X : In a (world_of st s)) by (unfold world_of; rewrite EM; left; auto).
      apply (uc_world _ _ U s a X).
  Qed.
  Lemma snap_index s : nlookup [] s (sn_index (snapshot u st)) = index_of st s.
  Proof.
    unfold snapshot; cbn [sn_index]. rewrite nlookup_opt. unfold index_of. destruct (nmem s (u_scopes u)) eqn:E.
    - destruct (p_index st s); auto.
    - apply nmem_nIn in E. destruct (p_index st s) as [l|] eqn:EM; auto.
      destruct l as [|g l]; auto. exfalso. apply E.
      assert (X : In g (index_of st s)) by (unfold index_of; rewrite EM; left; auto).
      apply (i_index _ I) in X. apply nonempty_key in X. apply In_u_keys in X. tauto.
  Qed.
  Lemma snap_rel a : In a (u_actors u) ->
    nlookup ([], [], []) a (sn_rels (snapshot u st))
    = (r_mem (rel_of st a), r_gmon (rel_of st a), r_wmon (rel_of st a)).
  Proof.
    intros H. unfold snapshot; cbn [sn_rels]. rewrite nlookup_opt. apply nmem_In in H. rewrite H.
    unfold rel_of. destruct (p_rels st a); auto.
  Qed.

  Lemma check_snapshot_sound : check_snapshot u sp (snapshot u st) = true.
  Proof.
    unfold check_snapshot. cbv zeta. rewrite !andb_true_iff. repeat split.
    - apply forallb_forall. intros k Hk. rewrite snap_mems, snap_liss. apply andb_true_iff. split.
      + apply nset_eqb_intro; [apply (i_nd_mem _ I)|apply NoDup_filter, actors_nd|]. intros x. apply mem_filter.
      + apply nset_eqb_intro; [apply (i_nd_lis _ I)|apply NoDup_filter, actors_nd|]. intros x. apply lis_filter.
    - apply forallb_forall. intros s Hs. rewrite snap_world.
      apply nset_eqb_intro; [apply (i_nd_world _ I)|apply NoDup_filter, actors_nd|]. intros x. apply world_filter.
    - apply forallb_forall. intros s Hs. rewrite snap_index.
      apply nset_eqb_intro; [apply (i_nd_index _ I)|apply NoDup_filter, groups_nd|].
      intros g. rewrite filter_In, snap_mems, negb_true_iff, null_false, (i_index _ I). split; [|tauto].
      intros H. split; auto. apply nonempty_key in H. apply In_u_keys in H. tauto.
    - apply forallb_forall. intros a Ha. rewrite snap_rel; auto. rewrite !andb_true_iff. repeat split.
      + apply kset_eqb_intro; [apply (i_nd_rmem _ I)|apply NoDup_filter, NoDup_u_keys; auto|].
        intros k. rewrite filter_In, snap_mems, nmem_In, (i_rmem _ I). split; [|tauto].
        intros H. split; auto. apply (uc_mem _ _ U k a H).
      + apply kset_eqb_intro; [apply (i_nd_rgmon _ I)|apply NoDup_filter, NoDup_u_keys; auto|].
        intros k. rewrite filter_In, snap_liss, nmem_In, (i_rgmon _ I). split; [|tauto].
        intros H. split; auto. apply (uc_lis _ _ U k a H).
      + apply nset_eqb_intro; [apply (i_nd_rwmon _ I)|apply NoDup_filter, NoDup_wscopes; auto|].
        intros s. rewrite filter_In, snap_world, nmem_In, (i_rwmon _ I). split; [|tauto].
        intros H. split; auto. apply (uc_world _ _ U s a H).
    - apply forallb_forall. intros [a y] H. unfold snapshot in H; cbn [sn_world sn_map sn_index sn_rels] in H. apply In_opt_list in H. destruct H as [_ H]. simpl.
      rewrite hs_dead. destruct (p_dead st a) eqn:D; auto. rewrite (i_dead _ I a D) in H. discriminate.
    - apply forallb_forall. intros [k y] H. unfold snapshot in H; cbn [sn_world sn_map sn_index sn_rels] in H. apply In_opt_list in H. simpl. apply kmem_In. tauto.
    - apply forallb_forall. intros [s y] H. unfold snapshot in H; cbn [sn_world sn_map sn_index sn_rels] in H. apply In_opt_list in H. simpl fst. apply nmem_In. tauto.
    - apply forallb_forall. intros [s y] H. unfold snapshot in H; cbn [sn_world sn_map sn_index sn_rels] in H. apply In_opt_list in H. simpl fst. apply nmem_In. tauto.
    - apply forallb_forall. intros [a y] H. unfold snapshot in H; cbn [sn_world sn_map sn_index sn_rels] in H. apply In_opt_list in H. simpl fst. apply nmem_In. tauto.
  Qed.
End Sound.

(* ---------- notifications ---------- *)
Lemma monitor_recip st sp s g l : spec_eq (abs st) sp ->
  is_monitor sp s g l = true <-> In l (recipients st s g).
Proof.
  intros SE. unfold is_monitor, recipients. rewrite !orb_true_iff, !in_app_iff.
  rewrite (hs_gm st sp SE), (hs_wm st sp SE), (hs_wm st sp SE), !nmem_In. tauto.
Qed.

Lemma cover_intro u sp sp' isj evs (pay : key -> list N) :
  (forall k a, In a (u_actors u) -> changed sp sp' k a = true -> In a (pay k)) ->
  (forall k l, In k (u_keys u) -> (exists a, In a (u_actors u) /\ changed sp sp' k a = true) ->
     In l (u_actors u) -> is_monitor sp' (fst k) (snd k) l = true ->
     In (mkEv l isj (fst k) (snd k) (pay k)) evs) ->
  forallb (fun k =>
       negb (existsb (changed sp sp' k) (u_actors u))
       || forallb (fun l => negb (is_monitor sp' (fst k) (snd k) l)
                            || existsb (ev_covers u sp sp' isj k l) evs) (u_actors u))
     (u_keys u) = true.
Proof.
  intros H1 H2. apply forallb_forall. intros k Hk.
  destruct (existsb (changed sp sp' k) (u_actors u)) eqn:E; simpl; auto.
  apply existsb_exists in E. apply forallb_forall. intros l Hl.
  destruct (is_monitor sp' (fst k) (snd k) l) eqn:M; simpl; auto.
  apply existsb_exists. exists (mkEv l isj (fst k) (snd k) (pay k)). split; [apply H2; auto|].
  unfold ev_covers. simpl. rewrite !N.eqb_refl, Bool.eqb_reflx. simpl.
  apply forallb_forall. intros a Ha. destruct (changed sp sp' k a) eqn:C; simpl; auto.
  apply nmem_In. apply H1; auto.
Qed.

Lemma bool_neq_true (a b : bool) : negb (Bool.eqb a b) = true -> a <> b.
Proof. destruct a, b; simpl; congruence. Qed.

Lemma check_events_sound u st sp o :
  inv st -> spec_eq (abs st) sp -> op_in u o = true ->
  check_events u sp (spec_step sp o) o (snd (step st o)) = true.
Proof.
  intros I SE W.
  assert (SE' : spec_eq (abs (fst (step st o))) (spec_step sp o)).
  { eapply spec_eq_trans; [apply refine_step; auto|apply spec_step_eq; auto]. }
  unfold check_events. apply andb_true_iff.
  destruct o as [s g acts|s g acts|g a0|s a0|g a0|s a0|a0].
  - (* join *)
    assert (RC : recipients (fst (step st (OJoin s g acts))) s g = recipients st s g).
    { unfold recipients. simpl. rewrite join_lis, !join_world. auto. }
    simpl snd. rewrite notify_join. cbv zeta.
    set (kept := filter (fun a => negb (p_dead st a)) acts).
    assert (CH : forall k a, changed sp (spec_step sp (OJoin s g acts)) k a = true -> k = (s, g) /\ In a kept).
    { intros k a C. unfold changed in C. simpl in C.
      destruct (sm sp k a); simpl in C; [discriminate|].
      destruct (keqb_spec (s, g) k) as [<-|]; simpl in C; [|discriminate].
      destruct (nmem a acts) eqn:EA; simpl in C; [|discriminate].
      destruct (sdead sp a) eqn:ED; simpl in C; [discriminate|].
      split; auto. unfold kept. apply filter_In. split; [apply nmem_In; auto|].
      rewrite <- (hs_dead st sp SE), ED. auto. }
    split.
    + destruct (null kept); [reflexivity|]. apply forallb_forall. intros e He.
      apply in_map_iff in He. destruct He as [l [<- Hl]]. unfold ev_allowed. simpl.
      rewrite !N.eqb_refl. rewrite !andb_true_r. apply andb_true_iff. split.
      * apply (monitor_recip _ _ s g l SE'). rewrite RC. auto.
      * apply forallb_forall. intros a Ha. unfold kept in Ha. apply filter_In in Ha. destruct Ha as [Ha Hd].
        apply nmem_In in Ha. rewrite Ha. rewrite (hs_dead st sp SE). auto.
    + apply (cover_intro u sp _ true _ (fun _ => kept)).
      * intros k a _ C. apply (CH k a C).
      * intros k l Hk [a [Ha C]] Hl M. destruct (CH k a C) as [-> Hin]. simpl.
        destruct (null kept) eqn:EN; [apply null_nil in EN; rewrite EN in Hin; destruct Hin|].
        apply in_map_iff. exists l. split; auto. rewrite <- RC. apply (monitor_recip _ _ s g l SE'). auto.
  - (* leave *)
    assert (RC : recipients (fst (step st (OLeave s g acts))) s g = recipients st s g).
    { unfold recipients. simpl. rewrite leave_lis, !leave_world. auto. }
    simpl snd. rewrite notify_leave.
    assert (CH : forall k a, changed sp (spec_step sp (OLeave s g acts)) k a = true ->
                 k = (s, g) /\ In a acts /\ In a (mem_of st (s, g))).
    { intros k a C. unfold changed in C. simpl in C.
      destruct (sm sp k a) eqn:ES; simpl in C; [|discriminate].
      destruct (keqb_spec (s, g) k) as [<-|]; simpl in C; [|discriminate].
      destruct (nmem a acts) eqn:EA; simpl in C; [|discriminate].
      repeat split; auto; [apply nmem_In; auto|]. rewrite (hs_sm st sp SE) in ES. apply nmem_In; auto. }
    split.
    + destruct (has_entry st (s, g)); [|reflexivity]. apply forallb_forall. intros e He.
      apply in_map_iff in He. destruct He as [l [<- Hl]]. unfold ev_allowed. simpl.
      rewrite !N.eqb_refl. simpl. apply andb_true_iff. split.
      * apply (monitor_recip _ _ s g l SE'). rewrite RC. auto.
      * apply nsubset_spec. auto.
    + apply (cover_intro u sp _ false _ (fun _ => acts)).
      * intros k a _ C. apply (CH k a C).
      * intros k l Hk [a [Ha C]] Hl M. destruct (CH k a C) as [-> [Hin Hm]]. simpl.
        assert (E : has_entry st (s, g) = true).
        { apply entry_iff; auto. left. intros X. rewrite X in Hm. destruct Hm. }
        rewrite E. apply in_map_iff. exists l. split; auto. rewrite <- RC.
        apply (monitor_recip _ _ s g l SE'). auto.
  - split; [reflexivity|]. apply (cover_intro u sp _ false _ (fun _ => [])); intros k a; [intros _ C|].
    + unfold changed in C. simpl in C. rewrite Bool.eqb_reflx in C. discriminate.
    + intros _ [b [_ C]]. unfold changed in C. simpl in C. rewrite Bool.eqb_reflx in C. discriminate.
  - split; [reflexivity|]. apply (cover_intro u sp _ false _ (fun _ => [])); intros k a; [intros _ C|].
    + unfold changed in C. simpl in C. rewrite Bool.eqb_reflx in C. discriminate.
    + intros _ [b [_ C]]. unfold changed in C. simpl in C. rewrite Bool.eqb_reflx in C. discriminate.
  - split; [reflexivity|]. apply (cover_intro u sp _ false _ (fun _ => [])); intros k a; [intros _ C|].
    + unfold changed in C. simpl in C. rewrite Bool.eqb_reflx in C. discriminate.
    + intros _ [b [_ C]]. unfold changed in C. simpl in C. rewrite Bool.eqb_reflx in C. discriminate.
  - split; [reflexivity|]. apply (cover_intro u sp _ false _ (fun _ => [])); intros k a; [intros _ C|].
    + unfold changed in C. simpl in C. rewrite Bool.eqb_reflx in C. discriminate.
    + intros _ [b [_ C]]. unfold changed in C. simpl in C. rewrite Bool.eqb_reflx in C. discriminate.
  - (* exit *)
    assert (CH : forall k a, changed sp (spec_step sp (OExit a0)) k a = true -> a = a0 /\ In a0 (mem_of st k)).
    { intros k a C. unfold changed in C. simpl in C.
      destruct (sm sp k a) eqn:ES; simpl in C; [|discriminate].
      destruct (N.eqb_spec a0 a) as [<-|]; simpl in C; [|discriminate].
      split; auto. rewrite (hs_sm st sp SE) in ES. apply nmem_In; auto. }
    simpl snd. destruct (p_dead st a0) eqn:D.
    + rewrite exit_dead_noev; auto. split; [reflexivity|].
      apply (cover_intro u sp _ false _ (fun _ => [])); intros k a; [intros _ C|intros _ [b [_ C]]];
        destruct (CH _ _ C) as [_ X]; destruct (dead_nowhere _ _ I D) as [Y _]; destruct (Y _ X).
    + rewrite notify_exit; auto. cbv zeta. split.
      * apply forallb_forall. intros e He. apply in_flat_map in He. destruct He as [[ks kg] [Hk He]].
        apply in_map_iff in He. destruct He as [l [<- Hl]]. simpl in Hl. unfold ev_allowed. simpl.
        rewrite <- (hs_dead st sp SE) in D. rewrite D. simpl.
        rewrite !andb_true_iff. repeat split.
        -- apply (monitor_recip _ _ ks kg l SE'). auto.
        -- unfold nset_eqb, nsubset. simpl. rewrite N.eqb_refl. reflexivity.
        -- rewrite (hs_sm st sp SE). apply nmem_In. apply (i_rmem _ I). auto.
      * apply (cover_intro u sp _ false _ (fun _ => [a0])).
        -- intros k a _ C. destruct (CH _ _ C) as [-> _]. left; auto.
        -- intros k l Hk [a [Ha C]] Hl M. destruct (CH _ _ C) as [_ Hm].
           apply in_flat_map. exists k. split; [apply (i_rmem _ I); auto|].
           apply in_map_iff. exists l. split; auto. destruct k as [ks kg].
           apply (monitor_recip _ _ ks kg l SE'). auto.
Qed.

(* ---------- the oracle accepts every run of the atomic model ---------- *)
Lemma check_from_sound u : wf_u u -> forall ops st sp,
  inv st -> ucl u st -> spec_eq (abs st) sp -> forallb (op_in u) ops = true ->
  check_from u sp ops (run_views u st ops) = true.
Proof.
  intros WF. induction ops as [|o ops IH]; intros st sp I U SE W; simpl; auto.
  simpl in W. apply andb_true_iff in W. destruct W as [Wo W].
  destruct (step st o) as [st' evs] eqn:E. simpl.
  assert (E1 : st' = fst (step st o)) by (rewrite E; auto).
  assert (E2 : evs = snd (step st o)) by (rewrite E; auto).
  assert (I' : inv st') by (rewrite E1; apply inv_step; auto).
  assert (U' : ucl u st') by (rewrite E1; apply ucl_step; auto).
  assert (SE' : spec_eq (abs st') (spec_step sp o)).
  { rewrite E1. eapply spec_eq_trans; [apply refine_step; auto|apply spec_step_eq; auto]. }
  apply andb_true_iff. split; [|apply IH; auto].
  unfold check_view. cbv zeta. rewrite !andb_true_iff. repeat split.
  - apply check_queries_sound; auto.
  - apply check_snapshot_sound; auto.
  - simpl. rewrite E2. apply check_events_sound; auto.
Qed.

Theorem check_C11_sound u ops : wf_u u -> forallb (op_in u) ops = true ->
  check_C11 u ops (run_views u pg0 ops) = true.
Proof.
  intros WF W. apply check_from_sound; auto.
  - apply inv0. - apply ucl0. - repeat split; auto.
Qed.
