#!/usr/bin/env python3
"""Single entry point:  bin/check.py <property> [--tier quick|thorough] [--replay FILE]"""
import argparse
import importlib
import os
import sys
import traceback

sys.path.insert(0, os.path.join(os.path.dirname(os.path.dirname(os.path.abspath(__file__))), "lib"))
import common  # noqa: E402


def main():
    ap = argparse.ArgumentParser()
    ap.add_argument("prop")
    ap.add_argument("--tier", default=os.environ.get("VERIF_TIER", "quick"))
    ap.add_argument("--replay", default=None)
    a = ap.parse_args()
    tier = a.tier if a.tier in ("quick", "thorough") else "quick"
    seed = int(os.environ.get("VERIF_SEED", "1") or "1")
    mod = importlib.import_module(a.prop.lower())
    chk = common.Check(a.prop, tier, seed)
    chk.replay = a.replay
    try:
        rc = mod.run(chk)
    except Exception:
        traceback.print_exc()
        print(f"[{a.prop}] INFRASTRUCTURE FAILURE (no verdict)")
        rc = 2
    sys.exit(rc)


if __name__ == "__main__":
    main()
