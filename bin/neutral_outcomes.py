#!/usr/bin/env python3
"""Runs the checks against every behaviour-preserving change in neutral/<id>/patch.diff (produced by
independent sub-agents asked for realistic refactorings that keep every property) in scratch
worktrees (bin/try_mutation.sh) and records the verdicts in neutral/<id>/outcome.json and
neutral/README.md.  A VIOLATION *with a failing input* here is a false alarm of the machinery (or the
refactoring is not neutral after all: look at the replay); `no-failing-input-found` is the allowed
"proof or correspondence no longer checks" outcome; silence is the ideal.
usage: bin/neutral_outcomes.py [--jobs N] [--only ID ...] [--report]"""
import argparse, json, os, subprocess, sys
from concurrent.futures import ThreadPoolExecutor
sys.path.insert(0, os.path.dirname(os.path.abspath(__file__)))
from seeded_outcomes import classify
ROOT = os.path.dirname(os.path.dirname(os.path.abspath(__file__)))
NEU = os.path.join(ROOT, "neutral")
EXTRA = {"actor-1": ["C05", "C06"], "actor-2": ["C01", "C04", "C06"], "actor-3": ["C01", "C05", "C06"], "actor-4": ["C01", "C06", "C08", "C10"],
         "life-1": ["C04"], "life-2": ["C03"], "life-4": ["C01"], "util-2": [], "cluster-2": ["C17"], "cluster-3": ["C20"]}


def run_one(nid):
    d = os.path.join(NEU, nid)
    meta = json.load(open(os.path.join(d, "meta.json")))
    props = list(dict.fromkeys(list(meta.get("touches_properties", [])) + EXTRA.get(nid, [])))
    p = subprocess.run([os.path.join(ROOT, "bin", "try_mutation.sh"), os.path.join(d, "patch.diff")] + props,
                       stdout=subprocess.PIPE, stderr=subprocess.STDOUT, text=True, cwd=ROOT)
    lines = p.stdout.split("\n")
    out = {"ran": "bin/try_mutation.sh neutral/%s/patch.diff %s (quick tier, VERIF_SEED=1)" % (nid, " ".join(props)), "checks": {}}
    for pr in props:
        kind, n = classify(lines, pr)
        out["checks"][pr] = {"verdict": kind, "violations_reported": n}
    json.dump(out, open(os.path.join(d, "outcome.json"), "w"), indent=1)
    open(os.path.join(d, "last_run.log"), "w").write(p.stdout[-20000:])
    print("done", nid, out["checks"], flush=True)


def report():
    rows = []
    for nid in sorted(os.listdir(NEU)):
        d = os.path.join(NEU, nid)
        if not os.path.isdir(d):
            continue
        meta = json.load(open(os.path.join(d, "meta.json")))
        outc = json.load(open(os.path.join(d, "outcome.json"))) if os.path.exists(os.path.join(d, "outcome.json")) else None
        verdicts = "; ".join(f"{k}: {v['verdict']}" for k, v in (outc or {}).get("checks", {}).items()) or "not run yet"
        summ = str(meta.get("summary", "")).replace("\n", " ").replace("|", "/")[:300]
        rows.append(f"| {nid} | {summ} | {verdicts} |")
    with open(os.path.join(NEU, "README.md"), "w") as f:
        f.write("# Behaviour-preserving changes (false-alarm probe)\n\nRealistic refactorings by independent sub-agents that saw only "
                "the property texts and a scratch worktree, asked to keep every property (compile, 307 tests pass). `outcome.json` = what "
                "the checks said (`bin/neutral_outcomes.py`). None is ever committed to /repo.\n\n| id | change | check verdicts |\n|---|---|---|\n")
        f.write("\n".join(rows) + "\n")
    print("README written", len(rows))


def main():
    ap = argparse.ArgumentParser()
    ap.add_argument("--jobs", type=int, default=3)
    ap.add_argument("--only", nargs="*")
    ap.add_argument("--report", action="store_true")
    a = ap.parse_args()
    if not a.report:
        ids = a.only or sorted(x for x in os.listdir(NEU) if os.path.isdir(os.path.join(NEU, x)))
        with ThreadPoolExecutor(max_workers=a.jobs) as ex:
            list(ex.map(run_one, ids))
    report()


if __name__ == "__main__":
    main()
