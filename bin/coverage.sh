#!/bin/bash
# usage: [COV_DOCS=<dir>] bin/coverage.sh [props...]   — line coverage of /repo's library sources reached by the
# quick tier of the checks (what the correspondence actually exercises).  Builds the harness with
# -C instrument-coverage on the nightly toolchain (its llvm-tools match) into harness/target-cov*,
# runs the checks with evidence redirected (RV_OUT), merges the profiles and writes
# docs/coverage/summary.txt (per file) and docs/coverage/uncovered.txt (uncovered line ranges).
set -u
VERIF=$(cd "$(dirname "$0")/.." && pwd)
TOOLS=$(ls -d /root/.rustup/toolchains/nightly-x86_64-unknown-linux-gnu/lib/rustlib/x86_64-unknown-linux-gnu/bin)
RAW=$VERIF/work/cov-raw.$$; OUT=$VERIF/work/cov-out.$$; DOCS=${COV_DOCS:-$VERIF/docs/coverage}; PD=$VERIF/work/cov.$$
rm -rf $RAW $OUT; mkdir -p $RAW $OUT $DOCS
PROPS=${@:-C01 C02 C03 C04 C05 C06 C07 C08 C09 C10 C11 C12 C13 C14 C15 C16 C17 C18 C19 C20}
export RUSTUP_TOOLCHAIN=nightly CARGO_INCREMENTAL=0 RUSTFLAGS="-C instrument-coverage --cfg slawlor_ractor_verif"
export RV_TARGET=target-cov RV_OUT=$OUT LLVM_PROFILE_FILE="$RAW/%p-%9m.profraw"
for P in $PROPS; do
  ( cd $VERIF && python3 bin/check.py $P --tier quick 2>&1 | grep "^\[$P\]" | cut -c1-160 )
done
$TOOLS/llvm-profdata merge -sparse $RAW/*.profraw -o $PD.profdata || exit 2
OBJS=""
for d in $VERIF/harness/target-cov*/debug; do for b in $d/eng_*; do [ -x "$b" ] && [ ! -d "$b" ] && case "$b" in *.d) ;; *) OBJS="$OBJS -object $b";; esac; done; done
$TOOLS/llvm-cov export -format=lcov -instr-profile=$PD.profdata $OBJS -ignore-filename-regex='(\.cargo|rustc|/verif/)' > $PD.lcov 2>/dev/null
python3 - $PD.lcov $DOCS <<'PY'
import sys, collections
lcov, out = sys.argv[1], sys.argv[2]
files = collections.OrderedDict(); cur = None
for l in open(lcov):
    l = l.strip()
    if l.startswith("SF:"):
        cur = files.setdefault(l[3:], {})
    elif l.startswith("DA:") and cur is not None:
        a, b = l[3:].split(",")[:2]
        cur[int(a)] = max(cur.get(int(a), 0), int(b))
rows = []; unc = []
for f, d in sorted(files.items()):
    if "/repo/" not in f or "/tests" in f or f.endswith("tests.rs") or "verif" in f.split("/")[-1]:
        continue
    n = len(d); c = sum(1 for v in d.values() if v > 0)
    rows.append((f.split("/repo/")[1], c, n))
    lines = sorted(k for k, v in d.items() if v == 0)
    rng = []
    for k in lines:
        if rng and k <= rng[-1][1] + 1: rng[-1][1] = k
        else: rng.append([k, k])
    if rng:
        unc.append(f.split("/repo/")[1] + ": " + ", ".join(f"{a}-{b}" if a != b else str(a) for a, b in rng))
tc = sum(r[1] for r in rows); tn = sum(r[2] for r in rows)
with open(out + "/summary.txt", "w") as fo:
    fo.write("line coverage of /repo library sources by the quick tier of all checks (bin/coverage.sh)\n")
    for r in rows:
        fo.write(f"{r[0]:60s} {r[1]:5d}/{r[2]:5d} {100*r[1]/max(1,r[2]):5.1f}%\n")
    fo.write(f"{'TOTAL':60s} {tc:5d}/{tn:5d} {100*tc/max(1,tn):5.1f}%\n")
open(out + "/uncovered.txt", "w").write("\n".join(unc) + "\n")
print(f"TOTAL {tc}/{tn} = {100*tc/max(1,tn):.1f}%")
PY
rm -rf $RAW $OUT $PD.profdata $PD.lcov
