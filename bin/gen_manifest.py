#!/usr/bin/env python3
"""Writes MANIFEST.json from checks/Cnn.json fragments (one per claimed property) and
not_applicable.json (reasons for unclaimed ones). Hook commits are read from /repo's git log."""
import json, os, subprocess
ROOT = os.path.dirname(os.path.dirname(os.path.abspath(__file__)))
ALL = [f"C{n:02d}" for n in range(1, 21)]
NOT_YET = "check not built yet (planned: DESIGN.md section 4); no claim is made for this property in this commit"

def main():
    frags = {}
    for f in sorted(os.listdir(os.path.join(ROOT, "checks"))):
        if f.endswith(".json"):
            c = json.load(open(os.path.join(ROOT, "checks", f)))
            frags[c["property_id"]] = c
    reasons = {}
    p = os.path.join(ROOT, "not_applicable.json")
    if os.path.exists(p):
        reasons = json.load(open(p))
    checks, engines = [], {}
    for pid in ALL:
        if pid not in frags:
            continue
        c = frags[pid]
        chk = {
            "property_id": pid,
            "quick_cmd": c.get("quick_cmd", f"python3 bin/check.py {pid} --tier quick"),
            "thorough_cmd": c.get("thorough_cmd", f"python3 bin/check.py {pid} --tier thorough"),
            "evidence_file": f"evidence/{pid}.json",
            "replay_cmd_template": f"python3 bin/check.py {pid} --replay {{path}}",
            "engine": c["engine"],
            "level_claimed": {"category": c.get("category", "proof"), "text": c["text"], "design_ref": c["design_ref"]},
            "level_note": c["note"],
            "technique": c["technique"],
        }
        checks.append(chk)
        e = engines.setdefault(c["engine"], {"name": c["engine"], "path": "harness/src/bin", "serves_properties": [],
                                             "kind_free_text": c.get("engine_desc", "")})
        e["serves_properties"].append(pid)
    try:
        commits = subprocess.run(["git", "-C", "/repo", "log", "--grep", "^verif hook", "--format=%h"],
                                 capture_output=True, text=True).stdout.split()
    except Exception:
        commits = []
    man = {
        "version": 1,
        "setup_cmd": "bash bin/setup.sh",
        "hooks": {
            "guard": "--cfg slawlor_ractor_verif",
            "enable": "RUSTFLAGS=\"--cfg slawlor_ractor_verif\" (set in harness/.cargo/config.toml); the harness crate depends on /repo/ractor and /repo/ractor_cluster by path, so every check rebuilds them from the working tree",
            "baseline_off_cmd": "cd /repo && cargo nextest run --workspace --no-fail-fast --tool-config-file pb:/w/lib/nextest.toml --profile pb --test-threads 8 --offline",
            "source_commits": list(reversed(commits)),
            "add_only": True,
        },
        "engines": list(engines.values()),
        "checks": checks,
        "notes": "Technique family: machine-checked proof in Coq 8.16.1 over hand-written executable Gallina models + per-run correspondence check against the real Rust code (DESIGN.md).",
        "not_applicable": [{"property_id": p, "reason": reasons.get(p, NOT_YET)} for p in ALL if p not in frags],
    }
    json.dump(man, open(os.path.join(ROOT, "MANIFEST.json"), "w"), indent=1)
    print("MANIFEST.json:", len(checks), "checks,", len(man["not_applicable"]), "not claimed")

main()
