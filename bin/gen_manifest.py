#!/usr/bin/env python3
"""Writes MANIFEST.json from the table below (kept here so that the manifest is always valid JSON)."""
import json, os
ROOT = os.path.dirname(os.path.dirname(os.path.abspath(__file__)))
ALL = [f"C{n:02d}" for n in range(1, 21)]

CHECKS = {
 "C18": dict(
    engine="E3-pure",
    technique="Coq proof (permutation invariance, mirror agreement, tie resolution, unauthenticated-powerless, one-elected) over a Gallina model of elect_sessions/NodeServerState + differential correspondence with the real functions",
    text="Machine-checked theorems over all candidate multisets, name pairs, nonces and table states (no size bound) about a hand-written model of elect_sessions and the node-server candidate table; the model is tied to the code on every run by running both on exhaustive small and seeded random inputs and histories, and the property's executable oracle is evaluated (inside Coq) on the implementation's own answers.",
    design_ref="4/C18",
    note="Trusted: Coq kernel; fidelity of coq/Cluster/Elect.v to ractor_cluster/src/node.rs is checked by differential runs only; node names modelled by their rank under str::cmp; two-node handshake interleaving (E4) not yet covered by this check."),
}

NOT_YET = "framework for this property not built yet in this round (planned: DESIGN.md section 4)"

def main():
    checks = []
    for p in ALL:
        if p not in CHECKS:
            continue
        c = CHECKS[p]
        checks.append({
            "property_id": p,
            "quick_cmd": f"python3 bin/check.py {p} --tier quick",
            "thorough_cmd": f"python3 bin/check.py {p} --tier thorough",
            "evidence_file": f"evidence/{p}.json",
            "replay_cmd_template": f"python3 bin/check.py {p} --replay {{path}}",
            "engine": c["engine"],
            "level_claimed": {"category": c.get("category", "proof"), "text": c["text"], "design_ref": c["design_ref"]},
            "level_note": c["note"],
            "technique": c["technique"],
        })
    man = {
        "version": 1,
        "setup_cmd": "bash bin/setup.sh",
        "hooks": {
            "guard": "--cfg slawlor_ractor_verif",
            "enable": "RUSTFLAGS=\"--cfg slawlor_ractor_verif\" (set in harness/.cargo/config.toml); the harness crate depends on /repo/ractor and /repo/ractor_cluster by path",
            "baseline_off_cmd": "cd /repo && cargo nextest run --workspace --no-fail-fast --tool-config-file pb:/w/lib/nextest.toml --profile pb --test-threads 8 --offline",
            "source_commits": json.load(open(os.path.join(ROOT, "hooks.json")))["source_commits"],
            "add_only": True,
        },
        "engines": [
            {"name": "E3-pure", "path": "harness/src/bin", "serves_properties": ["C18"],
             "kind_free_text": "differential runs of pure functions / state tables: real Rust code vs. the Coq model evaluated with vm_compute"},
        ],
        "checks": checks,
        "notes": "Technique family: machine-checked proof in Coq 8.16.1 over hand-written executable models + per-run correspondence check (DESIGN.md).",
        "not_applicable": [{"property_id": p, "reason": NOT_YET} for p in ALL if p not in CHECKS],
    }
    json.dump(man, open(os.path.join(ROOT, "MANIFEST.json"), "w"), indent=1)

main()
