#!/usr/bin/env python3
"""Runs the checks against every seeded change (seeded/<id>/patch.diff) in scratch worktrees
(bin/try_mutation.sh) and records what each check reported in seeded/<id>/outcome.json;
regenerates seeded/README.md.  usage: bin/seeded_outcomes.py [--jobs N] [--only ID ...] [--report]
(--report: only rebuild README.md from the existing json files)."""
import argparse
import json
import os
import re
import subprocess
import sys
from concurrent.futures import ThreadPoolExecutor

ROOT = os.path.dirname(os.path.dirname(os.path.abspath(__file__)))
SEEDED = os.path.join(ROOT, "seeded")

# checks to run in addition to the seed's own property (related properties that may also notice)
EXTRA = {
    "C01-1": ["C03"], "C02-1": ["C07"], "C04-2": ["C05"], "C06-1": ["C10"], "C08-2": ["C05"],
    "C07-2": ["C02"], "C05-2": ["C08"],
    "C06-3": ["C05"], "C10-4": ["C06"], "C09-3": ["C20"], "C02-3": ["C09"], "C02-4": ["C09"],
    "C04-4": ["C01"], "C08-3": ["C04"], "C08-4": ["C07"], "C05-3": ["C08"], "C03-4": ["C07"],
    "C01-5": ["C04"], "C01-6": ["C03", "C05"], "C02-5": ["C20"], "C02-6": ["C20", "C09"], "C03-6": ["C20"],
    "C04-5": ["C03", "C01"], "C04-6": ["C08"], "C06-6": ["C04", "C08"], "C07-5": ["C08"], "C07-6": ["C02"],
    "C08-5": ["C01", "C05"], "C08-6": ["C05"], "C10-6": ["C08"],
    "C05-6": ["C08"], "C11-5": ["C20"], "C13-5": ["C14"], "C13-6": ["C15"], "C14-5": ["C13"], "C14-6": ["C15"],
    "C15-5": ["C13"], "C15-6": ["C13"], "C17-6": ["C20"], "C19-5": ["C17", "C20"], "C19-6": ["C13"], "C20-5": ["C17"], "C20-6": ["C11"],
    "C01-7": ["C02", "C04"], "C01-8": ["C04", "C03"], "C03-7": ["C04"], "C03-8": ["C12"], "C04-7": ["C07"], "C04-8": ["C03"],
    "C06-7": ["C11"], "C06-8": ["C04"], "C07-7": ["C06", "C11"], "C07-8": ["C02"], "C08-7": ["C10"], "C08-8": ["C10"],
    "C09-8": ["C20"], "C10-7": ["C08"], "C10-8": ["C08"],
    "C02-7": ["C03"], "C11-8": [], "C12-8": [], "C13-7": ["C14", "C15"], "C13-8": ["C15"], "C14-7": ["C13", "C15"], "C14-8": ["C13"],
    "C15-7": ["C13"], "C15-8": ["C13"], "C17-7": ["C19"], "C17-8": ["C18"], "C19-8": ["C17", "C20"], "C20-7": ["C18"],
    "C01-10": ["C08"], "C04-9": ["C05"], "C05-9": ["C08"], "C06-9": ["C10"], "C06-10": ["C04"], "C08-10": ["C10"], "C09-10": [],
    "C10-9": ["C06", "C08"], "C12-9": [], "C13-9": ["C15"], "C13-10": ["C15"], "C14-9": ["C13", "C15"], "C14-10": ["C13", "C15"],
    "C15-9": ["C13", "C14"], "C17-9": ["C20"], "C17-10": ["C19"], "C18-9": ["C20"], "C19-10": ["C20"], "C20-9": ["C11"], "C20-10": ["C09"],
    "C13-3": ["C14"], "C13-4": ["C15"], "C15-4": ["C13"], "C14-3": ["C13"], "C19-4": ["C20"], "C20-3": ["C19"],
}


def classify(lines, prop):
    tail = [l for l in lines if l.startswith(f"[{prop}]")]
    viol = [l for l in lines if l.startswith(f"VIOLATION property={prop}")]
    if any("INFRASTRUCTURE" in l for l in tail):
        return "infrastructure-failure", 0
    hard = [l for l in viol if "no-failing-input-found" not in l]
    if hard:
        kind = "VIOLATION with failing input"
    elif viol:
        kind = "VIOLATION no-failing-input-found"
    elif tail and "exit 0" in tail[-1]:
        kind = "silent (exit 0)"
    else:
        kind = "unknown"
    n = 0
    m = re.search(r"violations=(\d+)", tail[-1]) if tail else None
    if m:
        n = int(m.group(1))
    return kind, n


def run_one(sid):
    d = os.path.join(SEEDED, sid)
    props = [sid.split("-")[0]] + EXTRA.get(sid, [])
    p = subprocess.run([os.path.join(ROOT, "bin", "try_mutation.sh"), os.path.join(d, "patch.diff")] + props,
                       stdout=subprocess.PIPE, stderr=subprocess.STDOUT, text=True, cwd=ROOT)
    lines = p.stdout.split("\n")
    out = {"ran": "bin/try_mutation.sh seeded/%s/patch.diff %s (quick tier, VERIF_SEED=1)" % (sid, " ".join(props)),
           "checks": {}}
    for pr in props:
        kind, n = classify(lines, pr)
        out["checks"][pr] = {"verdict": kind, "violations_reported": n}
    mm = [l for l in lines if "minimised_scenario" in l]
    if mm:
        out["minimised_example"] = mm[0][:600]
    json.dump(out, open(os.path.join(d, "outcome.json"), "w"), indent=1)
    print("done", sid, out["checks"], flush=True)


def report():
    rows = []
    for sid in sorted(os.listdir(SEEDED)):
        d = os.path.join(SEEDED, sid)
        if not os.path.isdir(d):
            continue
        meta = json.load(open(os.path.join(d, "meta.json"))) if os.path.exists(os.path.join(d, "meta.json")) else {}
        conf = json.load(open(os.path.join(d, "confirm.json"))) if os.path.exists(os.path.join(d, "confirm.json")) else None
        outc = json.load(open(os.path.join(d, "outcome.json"))) if os.path.exists(os.path.join(d, "outcome.json")) else None
        confirmed = "not yet confirmed"
        if conf:
            ok = conf.get("applies_and_builds") and conf.get("demo_fails_with_patch") \
                and (conf.get("demo_passes_without_patch") or conf.get("demo_passes_without_patch_after_demo_repair")) \
                and "307 passed" in str(conf.get("suite_with_patch", ""))
            confirmed = "confirmed" if ok else "NOT confirmed: " + str(conf.get("notes", ""))[:120]
        verdicts = "; ".join(f"{k}: {v['verdict']}" for k, v in (outc or {}).get("checks", {}).items()) or "not run yet"
        summ = str(meta.get("summary", "")).replace("\n", " ").replace("|", "/")[:260]
        need = str(meta.get("needs_to_manifest", "")).replace("\n", " ").replace("|", "/")[:200]
        rows.append(f"| {sid} | {summ} | {need} | {confirmed} | {verdicts} |")
    with open(os.path.join(SEEDED, "README.md"), "w") as f:
        f.write("# Seeded changes\n\nEach directory holds a realistic change to slawlor/ractor produced by an independent sub-agent "
                "that saw only the property text and a scratch worktree: `patch.diff`, the demonstration (`*.rs`, `demo.diff`, "
                "`demo_instructions.txt`), `meta.json` (property, what it needs to manifest), `confirm.json` (+ demo logs: "
                "independent confirmation that it applies, builds, passes the 307-test suite, and that the demonstration fails "
                "with / passes without it) and `outcome.json` (what our checks reported, produced by `bin/seeded_outcomes.py`).\n"
                "None of these changes is ever committed to /repo.\n\n"
                "| id | change | needs to manifest | confirmation | check verdicts |\n|---|---|---|---|---|\n")
        f.write("\n".join(rows) + "\n")
    print("README.md written:", len(rows), "seeds")


def main():
    ap = argparse.ArgumentParser()
    ap.add_argument("--jobs", type=int, default=3)
    ap.add_argument("--only", nargs="*")
    ap.add_argument("--report", action="store_true")
    a = ap.parse_args()
    if not a.report:
        ids = a.only or sorted(x for x in os.listdir(SEEDED) if os.path.isdir(os.path.join(SEEDED, x)))
        with ThreadPoolExecutor(max_workers=a.jobs) as ex:
            list(ex.map(run_one, ids))
    report()


if __name__ == "__main__":
    main()
