#!/bin/bash
# Run once after a fresh restore, offline: builds the Coq development and the harness.
set -u
cd "$(dirname "$0")/.."
export CARGO_NET_OFFLINE=true
mkdir -p work evidence replays
( cd coq && timeout 3000 make -j16 all ) || echo "setup: coq build reported errors (checks will report them per property)"
[ -f harness/Cargo.lock ] || cp /repo/Cargo.lock harness/Cargo.lock
( cd harness && CARGO_TARGET_DIR=$PWD/target timeout 3000 cargo build --offline --bins ) || echo "setup: harness build reported errors"
exit 0
