#!/usr/bin/env python3
"""Run a property check against a scratch copy of the harness whose Cargo.toml points at a scratch
worktree of /repo (mutation experiments that must not disturb /repo):
    git -C /repo worktree add /tmp/wt-x HEAD
    mkdir /tmp/h-x && cp -r harness/{Cargo.toml,Cargo.lock,src,.cargo} /tmp/h-x && sed -i "s|/repo/|/tmp/wt-x/|g" /tmp/h-x/Cargo.toml
    (edit /tmp/wt-x) ; RV_TARGET=target python3 bin/mutcheck.py C06 /tmp/h-x
Note: it overwrites evidence/<prop>.json; re-run bin/check.py afterwards."""
import sys, os, importlib, shutil
sys.path.insert(0, "/verif/lib")
import common
prop, hdir = sys.argv[1], sys.argv[2]
# refresh the bin sources from the real harness
for f in os.listdir("/verif/harness/src/bin"):
    shutil.copy("/verif/harness/src/bin/" + f, hdir + "/src/bin/" + f)
shutil.copy("/verif/harness/src/lib.rs", hdir + "/src/lib.rs")
common.HARNESS = hdir
mod = importlib.import_module(prop.lower())
for name in ("HARNESS",):
    setattr(mod, name, hdir)
chk = common.Check(prop, "quick", int(os.environ.get("VERIF_SEED", "1")))
chk.replay = None
sys.exit(mod.run(chk))
