#!/bin/bash
# usage: bin/try_mutation.sh <patch.diff> <property> [<property> ...]
# Applies the patch to a scratch worktree of /repo, points a scratch copy of the harness at it and
# runs the given checks there (evidence/replays go to a scratch directory). /repo and /verif/evidence
# are left untouched. Prints each check's VIOLATION lines and exit code.
set -u
PATCH=$(readlink -f "$1"); shift
ID=$$
WT=/tmp/rv-mut-$ID; H=/tmp/rv-mut-h-$ID; OUT=/tmp/rv-mut-out-$ID
VERIF=$(cd "$(dirname "$0")/.." && pwd)
git -C /repo worktree add -q --detach $WT HEAD || exit 3
cleanup() { git -C /repo worktree remove --force $WT 2>/dev/null; rm -rf $WT $H $OUT; }
trap cleanup EXIT
( cd $WT && git apply "$PATCH" ) || { echo "patch does not apply"; exit 3; }
mkdir -p $H $OUT
rsync -a --exclude 'target*' "$VERIF/harness/" $H/
sed -i "s|/repo/|$WT/|g" $H/Cargo.toml
rc_all=0
for P in "$@"; do
  echo "=== $P against $(basename $PATCH)"
  ( cd "$VERIF" && CARGO_INCREMENTAL=0 RV_HARNESS=$H RV_OUT=$OUT RV_TARGET=target VERIF_SEED=${VERIF_SEED:-1} timeout 3000 python3 bin/check.py $P --tier ${TIER:-quick} 2>&1 | tee /tmp/try_mutation_last_$P.log | grep -E "VIOLATION|KNOWN-FINDING|INFRASTRUCTURE|^\[$P\]" | cut -c1-300 | head -12 )
  # first replay, abbreviated
  f=$(ls $OUT/replays/$P/* 2>/dev/null | head -1)
  [ -n "$f" ] && { echo "--- first replay:"; head -c 1500 "$f"; echo; grep -h "minimised_scenario\"" $OUT/replays/$P/* | head -2 | cut -c1-600; }
done
